"""Source of MANIFEST.json (regenerate with lib/mkmanifest.py)."""

SETUP = "cd /verif && CARGO_NET_OFFLINE=true CARGO_TARGET_DIR=/verif/.cache/vx-target cargo build --release --offline --manifest-path tools/vx-extract/Cargo.toml"

HOOKS = {
    "guard": "nacos_group_r_nacos_verif",
    "enable": "none needed: checks read /repo/src from the working tree and verify extracted text; no hook is committed to /repo (guard name reserved, unused)",
    "baseline_off_cmd": "cd /repo && cargo nextest run --workspace --no-fail-fast --offline || cargo test --workspace --no-fail-fast --offline",
    "source_commits": [],
    "add_only": True,
}

ENGINES = [
    {"name": "vx-extract + Verus", "path": "/verif/check", "serves_properties": [],
     "kind_free_text": "syn-based verbatim extractor of /repo functions + sidecar contracts spliced at structural anchors; Verus 0.2026.09.13 (z3) discharges every function-level obligation"},
]

NOTES = ("Contract-based deductive verification of the real code. Every run re-extracts the listed functions from /repo/src byte-exactly "
         "(tools/vx-extract), splices units/<u>/contracts.vs, and runs Verus. exit 0 pass / 1 VIOLATION / 2 undecided (never an alarm). "
         "See DESIGN.md.")

CHECKS = {
    "C20": {
        "text": "Proof (Verus, unbounded): the real write_varint64 / inner_sizeof_varint equal the LEB128 spec for every u64; the real MessageBufReader "
                "(append_next_buf / next_message_vec / is_empty) refines `view ++ chunk` / `first record of view` for every buffer state, which with the "
                "chunking lemma parse(a++b)=parse(a)++parse(residue(a)++b) gives identical decoding under every chunking.",
        "note": "read_varint64_offset contract is assumed in Verus (external_body); protobuf payload encoding not verified; shims in shims/base.rs; see evidence trusted_base.",
    },
}

CHECKS["C19"] = {
    "text": "Proof (Verus, unbounded) over the real SeqRange/SeqGroup/SimpleSequence/CacheSequence/SequenceDbManager::{next_id,next_range}: the group always "
            "hands out its least available id and removes exactly it; apply_range (no call-site assumptions: any buffer occupancy, a range below the ones held is dropped) keeps every available id and the least-first order; the replicated high-water mark "
            "equals end() exactly when emitted and set_valid_last_id never lowers it; per-key counters advance by exactly the step. Spec-level lemmas turn these "
            "postconditions into 'strictly increasing, never twice' over every call sequence. SequenceManager::{do_next_id, handle_result} are under contract too: the id answered "
            "to a request is the id taken out of the group. A bounded native stand-in drives the real SequenceManager message flow (outstanding refills, out-of-order replies).",
    "note": "ranges returned by NextRange are disjoint (Raft linearisability + SequenceDbManager::next_range, the latter proved); the actix message flow of the manager is only bounded; cross-node "
            "concurrency = Raft linearisability, assumed; HashMap::get_mut contract and Arc<String> key model are assumed (shims/std_extra.rs).",
}

CHECKS["C18"] = {
    "text": "Proof (Verus, unbounded) of the namespace privilege decision on the real PrivilegeGroup / NamespacePrivilegeGroup: check == whitelisted && !blacklisted "
            "(blacklist wins, *_is_all switches, missing lists), default-namespace names are mapped to the one default key and then judged by the same predicate, "
            "flag byte round trip. Config listing (unit configindex, real TenantIndex::query_config_page): a namespace the privilege does not permit contributes nothing to "
            "the page or the total, for a query that names a tenant and for a query over all tenants. "
            "Service listing (unit serviceindex, real NamespaceIndex::query_service_page): same statement for services, for a query that names a namespace and for the console listing over all namespaces.",
    "note": "Handler half: NOT proved — a BOUNDED stand-in runs on every check (real console route table behind a stub login layer that attaches a restricted user's session; every "
            "namespace-scoped route x 4 methods x 3 restricted users x the forbidden namespace named by query / form / JSON, or not named at all, must be refused before data is touched). "
            "It FAILS on the unchanged tree for three recorded groups of routes — KNOWN FINDINGS S14 (v1 console data routes), S15 (v2 config/download), S16 (console MCP routes): see "
            "known_findings.json; any other unrefused probe is a violation. NOT decided: the namespace listing filter (namespace actor), and that each console handler calls the check before acting (actix handlers/macros are outside Verus) — a handler that forgets the check is not detected. "
            "bitflags! constants are modelled (glue.rs) and the macro text is re-checked on every run; HashSet::contains / key model per vstd + A-KEY.",
}

CHECKS["C11"] = {
    "text": "Proof (Verus, unbounded) that every state-changing method of the real naming::Service (update_instance incl. all of its branches, remove_instance, "
            "update_instance_healthy_invalid, update_perpetual_instance_healthy_valid, time_check) preserves wf: instance_size == |instances|, "
            "healthy_instance_size == |healthy instances|, perpetual_host_set == non-ephemeral keys, stored key == address; get_service_info reports exactly those counts. "
            "Whole-map postconditions say which key changed and that every other entry is unchanged. "
            "Naming actor (unit namingactor, real NamingActor::update_instance / remove_instance / remove_client_instance / remove_client_instance_key): the reverse map "
            "client -> instance keys changes by exactly the rule — a gRPC / cluster-owned registration with a client id is recorded under that client, the owner the service "
            "reports as replaced loses the key, a removed instance leaves the record of the client that OWNED it whoever asked for the removal, a closed connection loses its record; "
            "every other service and record is unchanged and all services stay well formed.",
    "note": "Service listing index (unit serviceindex, real NamespaceIndex / ServiceIndex): insert/remove change the key set by exactly the key; query_service_page returns total = "
            "length of THE canonical match list and page = its window; spec lemmas: every listed service is stored, matches, lies in a permitted namespace, and is listed exactly once. "
            "NOT proved: that NamingActor keeps the index in step with service_map, the empty-service clean-up, and the GLOBAL invariants over operation sequences — a BOUNDED "
            "stand-in runs on every check (every sequence of <= 4 out of 15 operations on the real NamingActor, the full statement of C11 checked after every step), labelled bounded "
            "(create_empty_service is assumed in the contracts: creates an empty well-formed service) — chrono / NamingUtils / iterator adapters; the global invariant 'every recorded key names an instance of that client' is NOT claimed "
            "(only each operation's exact effect on the record); get_all_instances not under contract; TimeoutSet and Addr are shims; A-KEY for the key types.",
}
CHECKS["C12"] = {
    "text": "Proof (Verus, unbounded), partial scope: Service::remove_instance never removes an ephemeral instance owned by another client and otherwise removes exactly "
            "the named key; Service::update_instance stores a new registration with the ip, port, ephemeral, enabled, weight, health and owner it was given and keeps the "
            "gRPC owner when an HTTP re-registration hits a gRPC-owned ephemeral instance; every other entry unchanged. "
            "Disconnect (real NamingActor::remove_client_instance, every record, every number of keys): no persistent instance and no instance of another client is removed or "
            "changed, every ephemeral instance of the client that its record names is removed, nothing appears.",
    "note": "NOT decided: the query filters (get_all_instances, InstanceFilterUtils: iterator adapters + f32 protect threshold) and the gRPC/HTTP handlers; that the record "
            "names ALL ephemeral instances of the client is the global invariant not claimed under C11. The loop over the owned HashSet is iterated by reference (T8).",
}
CHECKS["C13"] = {
    "text": "Proof (Verus, unbounded) on the real Service::time_check / update_instance / update_instance_healthy_invalid / Instance::is_enable_timeout: persistent, gRPC "
            "and cluster-owned instances are never touched by the heartbeat clock; an instance whose last heartbeat is newer than the threshold is neither marked unhealthy "
            "nor removed; heartbeats (re)arm the health clock and marking unhealthy arms the removal clock; and, under the TimeoutSet model (A-TS), a silent instance whose "
            "entry is due is marked unhealthy / removed by that time_check call.",
    "note": "Liveness beyond one call (the 2 s driver, clock period), propagation to other nodes and do_refresh_process_range (iterator adapters) are not decided. "
            "TimeoutSet semantics assumed (glue.rs, read off inner-mem-cache 0.1.7).",
}

CHECKS["C17"] = {
    "text": "Proof (Verus, unbounded) of the console permission layer on the real src/user/permission.rs: PathResource::match_url is exact, case-sensitive matching "
            "('' method/path = all); Module/GroupResource::match_url == exists entry matching; the constructors compute exactly the union of the listed Path entries; "
            "UserRole::new maps '0','1','2' and nothing else; match_url_by_roles grants iff some role value's table grants (unknown roles and unlisted routes: nobody). "
            "Plus table lemmas L1-L3 proved over the role tables and the registered console routes re-extracted from the source on every run "
            "(visitor entries are GET except the login/self-service allow-list; developer has no user-management/transfer entry; visitor <= developer <= manager on every registered route).",
    "note": "Login half: NOT proved — CheckLoginMiddleware::call (regex, actix request, cache actor, async closure) is outside Verus; a BOUNDED stand-in runs on every check (real "
            "middleware + real console route table on an actix test service; every route of src/console/api.rs x 8 spellings x 4 methods x 4 non-session tokens must be refused or absent) — "
            "labelled bounded, not counted as proved; that a request WITH a valid session reaches match_url_by_roles with that session's roles is read off the middleware text, not decided; "
            "'GET handlers do not mutate' is assumed for L1. Table extraction is textual (T6), classification lists come from the property statement.",
    "technique": "contract-based deductive verification (Verus) of extracted functions + Verus lemmas over mechanically extracted table data; failing table lemma replayed natively on UserRole::match_url_by_roles",
}

CHECKS["C16"] = {
    "text": "Proof (Verus, unbounded), gRPC half only: in the real InvokerHandler::handle every registered handler is entered only when authorised — the data handler's "
            "contract carries `requires auth off || public type || cluster type || session present` and `requires no cluster token configured || not a cluster request || "
            "cluster token valid`, so Verus proves it at the one real call site; ignore_auth / is_cluster_request equal the public and cluster-internal sets written from the "
            "property statement; a refused request gets 403/500; fill_token_session attaches a session only with auth on, a non-empty presented token and a cache hit for exactly that token.",
    "note": "HTTP half: NOT proved — ApiCheckAuthMiddleware::call (async closure in a generic actix Service, two regexes, route table in web::scope builders) is outside Verus; "
            "a BOUNDED stand-in runs on every check (real middleware + real route table on an actix test service; 23 paths x 9 spellings x 4 methods x 9 token placements, none "
            "issued by a login, must get 403 'unknown user!'; the exempted endpoints must not) — labelled bounded, not counted as proved; a request WITH a login-issued token is not covered. "
            "A-CACHE assumed. The ClusterToken header comparison passes through a closure that "
            "is opaque to Verus (only 'flag raised => token configured' is proved). Trait dispatch to the concrete handlers is abstracted by one shim handler.",
}

CHECKS["C05"] = {
    "text": "Proof (Verus, unbounded) on the real RaftIndexInnerManager over a byte-level file model: an acknowledged write_index leaves exactly the saved record (term, vote, "
            "membership, addresses, catalogue) behind an untouched 8-byte header, for every record size (length prefix => a shorter record after a longer one decodes correctly); "
            "an acknowledged write_last_applied_log changes only the header; init returns exactly the values the image holds (for images > 20 bytes; the <= 20 byte case is the "
            "recorded finding S5); and each actor-level saver (write_hard_state, write_member, write_node_addr, add_node_addr, write_logs, write_snapshots) replaces exactly its own "
            "fields of the in-memory record and hands exactly that record to the writer — so interleaved catalogue saves cannot clobber a vote. init of a fresh file leaves an image that "
            "holds exactly (last-applied 0, default record) behind a RAW 8-byte header (clause @S21, after the repair of S21). The actor wrappers (A-WAIT) and the DTO<->protobuf conversion "
            "are covered by an always-on BOUNDED stand-in: a real RaftIndexManager actor, 6343 save sequences, the index file re-read with the real init after every acknowledged save.",
    "note": "A-WAIT: the async actor wrappers are outside Verus (async blocks) and modelled by a shim; protobuf wire format uninterpreted with unique decodability assumed; DTO<->message "
            "round trip assumed; big-endian id helpers assumed; FileMessageReader::read_next assumed here, proved in unit filereader under A-FULLREAD; no crash model (flush is a no-op).",
}

CHECKS["C09"] = {
    "text": "Proof (Verus, unbounded) on the real ConfigValue / ConfigActor: after set_config the key serves md5(content) of the published content, with type/description of the "
            "publish when given; a publish that changes the content (or replaces a tmp/missing value) stores it and appends exactly one history entry with the given id, newest last, "
            "bounded to the last 100; a publish of identical content changes neither content nor history; every other key is untouched (whole-map frame); del_config removes the key "
            "from store and listing index; the GET arm returns exactly the stored content/md5/type/description or not-found; listings only name stored keys and every published key is listed (wf). "
            "Listing index (unit configindex, real TenantIndex / ConfigIndex): insert/remove change the key set by exactly the key (no empty group or tenant is kept); "
            "query_config_page returns total = length of THE canonical match list (tenants, groups, data ids in increasing order) and page = its window [offset, offset+limit); "
            "spec lemmas: that list holds every stored matching key of a permitted namespace exactly once and nothing else, and consecutive windows tile it.",
    "note": "md5 uninterpreted; ConfigKey<->string round trip (format!/split) not under contract; unit config uses the TenantIndex set-view contract that unit configindex proves "
            "(under A-ORD: lawful Ord of Arc<String>, A-BTSET-ORDER: BTreeSet iterates in increasing order, and a counter that does not overflow); what a search pattern matches "
            "(ConfigQueryParam::match_group / match_data_id: deref coercions, str::rfind) is an uninterpreted predicate; ConfigActor::get_config_info_page (joins the page with the store) "
            "and the HTTP/gRPC layers are not decided.",
}
CHECKS["C10"] = {
    "text": "Proof (Verus, unbounded) on the real ConfigListener / ConfigActor: add gives a long-poll a fresh registration that is pending and recorded under every key it listens to, "
            "losing nothing recorded before; notify(key) answers exactly the registrations recorded under the key; set_config (when the content changes) and del_config notify the key; "
            "the LISTENER arm answers at once iff some held md5 is stale (absent key = md5 empty) or it does not wait, else registers — atomically in one actor step; gRPC subscriptions "
            "survive the removal of a key. Spec-level lemmas (l_inv inductive over add/notify) give: after a change of k no pending long-poll listens to k, for every ordering.",
    "note": "Delivery itself (oneshot send, BiStreamManage NotifyConfig through Addr) has no specified effect: 'answered' == removed from sender_map. ConfigListener::timeout (BTreeMap "
            "iteration with take(10000)) is verified for safety only, the 'no later than its timeout' bound and the 500 ms timer are not decided. Subscriber map mirroring is not under contract; "
            "remove_client_subscribe/remove_config_key are assumed (HashSet by-value iteration).",
}
CHECKS["C19"]["text"] = CHECKS["C19"]["text"] + " In the config store (unit config): ConfigActor::set_config adopts the replicated history-id high-water mark on every apply of an entry (also when the content is identical), and each history entry is stamped with the id carried by the entry."

CHECKS["C02"] = {
    "text": "Proof (Verus, unbounded), single log file scope: the real LogInnerManager keeps a data-structure invariant (exactly msg_count complete records fill "
            "[4096, data_cursor); every byte behind the cursor is zero; every index entry points at the record boundary it names; the index area holds exactly the encoded "
            "entries followed by zeros). An acknowledged write stores exactly the framed entry behind the entries already there, leaves them byte for byte, refuses any index "
            "other than the end index, and preserves the invariant; the end-of-log scan (move_to_end / move_to_index_by_count) returns exactly the first n records for EVERY "
            "chunking of the reads and stops exactly at the first zero length; read_indexs rebuilds exactly the index the area encodes; last index/term are those of the last entry. "
            "REOPEN: the real LogInnerManager::init, given the disk image of ANY well-formed state, returns a well-formed state with the same index, cursors and entry count "
            "(lemma_reopen + the contracts of read_indexs / move_to_end). READ BACK: the real read_records returns exactly the decoded frames of the entries "
            "[max(start, split_off), min(end, end index)) in order, changes nothing but the file cursor, and leaves the state well formed on EVERY exit (also failed reads).",
    "note": "Multi-file level: NOT proved — RaftLogManager (rollover, LogRange catalogue, split_off, snapshot pointer files, batch replication) and FileStore travel through "
            "Addr::send and actix future chains; a BOUNDED stand-in runs on every check (logs laid down over 2 or 3 files exactly as switch_new_log leaves them; the real "
            "RaftLogManager compared with a model list for reads across files, truncation at 4 cut points + appends, restart) — labelled bounded; its truncation scenarios FAIL on the "
            "unchanged tree: KNOWN FINDING S18 (see known_findings.json; also relevant here because the re-appended entries are lost at restart). load_record (the start-up replay reader) IS under contract since the build phase: the trait-object loader is replaced by a glue type that records what it is handed (T17/T18); the loader is handed exactly the records of the range that decode, in log order, each once (a record whose payload does not decode is skipped silently by the real code — pb_decodes is an uninterpreted function of the bytes). A-SAMEFILE: the two handles on one path are modelled as independent "
            "byte sequences and the disk image is [0,4096) of the index handle ++ [4096,..) of the data handle; A-FULLREAD for init's single 4 KiB read and for FileMessageReader; "
            "binrw header image and protobuf payload encoding uninterpreted (a log entry is assumed never to encode to the empty message); get_start_index (closure-based binary "
            "search) assumed; init on a NEW file establishes nothing in this model (the index handle does not see the data handle's writes). Crash points are C04.",
}
CHECKS["C03"] = {
    "text": "Proof (Verus, unbounded), single log file scope: strip_log_to(k) on the real LogInnerManager leaves every entry below k byte for byte, sets the end index to k (so the "
            "next append at k is accepted by write's contract), pops exactly the index entries above the cut and rewinds the index cursor by exactly the bytes they occupy, and "
            "re-establishes the invariant — in particular every byte behind the new data cursor and every popped index byte is zero, so no byte of the removed suffix can be read "
            "back, also after a reopen; k >= end index changes nothing. get_file_index_by_log_index returns the greatest entry <= k with exact pop count and byte width.",
    "note": "Multi-file selection in RaftLogManager::strip_log_to_index is NOT proved (actor message flow): a BOUNDED stand-in runs on every check (logs over 2 or 3 files, 4 cut "
            "points each, appends, restart; real manager against a model list) and FAILS on the unchanged tree for every cut in a log of more than one file — KNOWN FINDING S18 "
            "(truncation walks the files from the oldest and stops at once; the catalogue is not corrected or saved): see known_findings.json. Compaction pointer / installed snapshot "
            "paths are not exercised. Same modelling assumptions as C02.",
}

CHECKS["C14"] = {
    "text": "Proof (Verus, unbounded): the real InnerNodeManage::get_current_process_range returns (rank of this node among the valid nodes, number of valid nodes) for every node "
            "table; ProcessRange::is_range is exactly `len < 2 || hash % len == index`; and a spec-level theorem over every finite view and every hash: ranks are a bijection onto "
            "0..n-1, hence exactly one valid node owns each hash, and it is the node at position hash % n of the valid nodes in id order — the node the routing rule picks.",
    "note": "All live nodes are assumed to hold the same view. NodeManage::route_addr / get_all_valid_nodes (iterator adapters over an actor reply, DefaultHasher) are NOT under contract: "
            "the routing rule is stated in the theorem, not extracted; update_nodes / check_node_status (timers, Addr) not under contract. The original get_current_process_range "
            "(iterator adapters) was outside both verifiers; its defect S7 was established by native replay and repaired with a loop Verus can take.",
}

CHECKS["C07"] = {
    "text": "Proof (Verus, unbounded), dispatch level: a ghost effect log is threaded mechanically (T17) through the real RaftDataHandler::{apply_log_to_state_machine (leader), "
            "do_send_log (follower), load_log (start-up replay)} and their callers in raftapply.rs (async_apply_request_to_state_machine, apply_request_to_state_machine, the "
            "ApplyBatchRequest arm of Handler<StateApplyRequest> with its loop over a batch of ANY length, LogRecordLoaderInstance::load). Each path's postcondition says the "
            "messages handed to the component actors are exactly effs(request) — ONE spec function for all three paths, every field carried unchanged, nothing sent twice, "
            "nothing dropped, nothing else sent (the leader and the follower batch add only the last-applied bookkeeping message). A spec-level lemma (lemma_paths_agree) "
            "gives: for every committed sequence, whatever path applied each entry, every component received the same messages in the same order.",
    "note": "What a component does with a message is NOT part of this proof: the component handlers are assumed deterministic in (state, message), FIFO per mailbox, and "
            "indifferent to send vs do_send (A-ACTOR, A-FLAVOUR); actix Addr/Message, the component request types and the JSON / protobuf decoders are opaque glue "
            "(units/raftdata/glue.rs). Divergence noted, not alarmed: an undecodable ConfigFullValue entry aborts the rest of a follower batch but only itself on the leader "
            "(such entries are only produced by the node itself). The log-manager loop that feeds records to the loader is not under contract.",
}

CHECKS["C01"] = {
    "text": "Partial. Proof (Verus, unbounded) of the restart DISPATCH on the real RaftDataHandler, with the ghost effect log of T17: build_snapshot asks each of the seven components "
            "exactly once to write its state to THE writer; load_snapshot hands every snapshot record, unchanged, to the component that owns its tree (config rows and the config id "
            "counter to the config actor, named sequences to the sequence table, users / old cache rows to the table manager under their own table name, namespaces, MCP, persistent "
            "instances, cache to theirs) and to nobody else; load_complete announces the end once to each waiting component; load_log / LogRecordLoaderInstance::load replay a stored "
            "record as exactly the messages of its request (shared with C07). The record CODECS of the components and the snapshot file format are outside Verus (prost / quick-protobuf "
            "/ serde, async file actors): they are covered by an always-on BOUNDED stand-in that writes a real snapshot file from real component actors, restores it into fresh "
            "actors (wired by the real bean factory), replays the rest of the log and compares every observable answer (10626 history x compaction-point runs), and by a second "
            "always-on BOUNDED stand-in that runs the REAL start-up sequence (StateApplyManager::init -> load_index -> load_snapshot -> load_log with the real index, log and "
            "snapshot managers) over a copy of a real data directory (35 history x compaction-point runs) — both labelled bounded, not proof. The single-file log layer "
            "(unit loginner: write / init / read_records / reopen theorem, proved) also serves this property.",
    "note": "Not covered by proof: the FileStore / RaftSnapshotManager / RaftLogManager actor chains that pick the snapshot file and the log range at start-up (bounded stand-in only); "
            "not covered at all: partial snapshot files of an interrupted compaction, crash points (C04), multi-file logs in the restart runs. Known finding S20: the id counter of a table is not in the snapshot (latent: no caller issues "
            "table ids in this version). The direct cache (sessions) is not in the statement's list and is not compared; it does lose every entry at restore "
            "(CacheValue::to_do writes timeout 0), noted in DESIGN as an observation.",
}


CHECKS["C04"] = {
    "text": "Partial (four writers only). Proof (Verus, unbounded) of a CRASH-POINT INVARIANT on the real text of LogInnerManager::{write, strip_log_to} and "
            "RaftIndexInnerManager::{write_index, write_last_applied_log}: the extractor inserts a ghost assertion after EVERY statement that holds a file "
            "mutation (write_all / set_len; the places come from the syn call spans of the current text, transformation T19), so the invariant is checked at "
            "every instant between two file mutations, under the property's crash model (each write call atomic, program order). Log file: the disk image is at "
            "every such instant the image of a log that a reopen recovers (generalised reopen theorem lemma_reopen over states whose sparse index may lag) and "
            "that log is the log as it was or the log with exactly the new record behind it — never a partial or foreign entry, never an index entry that "
            "points behind the data; during a truncation (popped index bytes zeroed, then the data suffix) it is a prefix of the old log at least as long as the "
            "cut asks for, the records below the cut byte for byte (for removals within the 0xffff records the reopen scan walks); lemma_crash_append_meaning states what that means for the reopen computation (record count old or old+1, old records "
            "byte-identical, header / index area / record stream well formed). Index file: after the only mutation of each writer the file holds the old or the "
            "new (last-applied, term / vote / membership / catalogue) pair — a length prefix never stands before a body it does not belong to. "
            "The proof script at a crash point speaks only of the state at entry and of the handles' contents before / after that mutation, so it is the same "
            "at every point and follows the writes when they move.",
    "note": "NOT covered (no contract within reach — actor message chains, several files, rename / remove): a truncation that removes more than 65 535 records behind "
            "the surviving index entry (the crash-point assertion is guarded by that bound) and the creation branch of LogInnerManager::init (header write, then set_len: the "
            "256-byte intermediate file does reopen as an empty log, by inspection only); RaftLogManager roll-over / catalogue-before-file ordering, snapshot "
            "pointer insertion, split-off; RaftSnapshotManager::complete_snapshot (remove old files, then save catalogue); install_snapshot; the db_lock; the "
            "last-applied index never pointing past snapshot + log (spans three actors). No stand-in exists for these: a violation there is NOT detected by "
            "this check. Behind the two proved log-file writers an always-on BOUNDED stand-in (25 crash images of one log file: the handle of the killed write "
            "is replaced by a read-only one, the file copied and reopened with the real init) decides when a rewrite takes their text out of the proof's reach. Assumed: the file model of shims/tokio_fs.rs (two handles on one path are independent byte sequences, A-SAMEFILE), axiom_vec_of_seq "
            "(every finite sequence is the view of some Vec; names a ghost witness only).",
    "design_ref": "DESIGN.md §0.9",
}

NOT_APPLICABLE = {
    "C06": "multi-process cluster, fault schedules and eventual convergence (liveness); async-raft internals are an external crate (DESIGN §6)",
    "C15": "convergence after quiescence across nodes: liveness over message schedules and node failures (DESIGN §6)",
}

# ---- second build round: what was added to each level (appended so that the first-round texts stay as written)
CHECKS["C20"]["text"] += (" Second build round: the unrolled 10-byte decoder read_varint64_offset is itself under contract (every return equals (vlen, vval) of the spec for EVERY "
                          "slice and offset; bit-vector group lemmas), no longer assumed; a Kani companion (all slices <= 12 bytes, offsets <= 2) supplies concrete counterexamples; an always-on "
                          "BOUNDED chunking stand-in decides when a rewrite takes the reader's text out of the proof's reach.")
CHECKS["C20"]["note"] = "protobuf payload encoding not verified; A-FULLREAD for FileMessageReader; shims in shims/base.rs; see evidence trusted_base."
_BEHIND = (" Behind the proved functions an always-on BOUNDED stand-in (labelled bounded, never counted as proved) decides the statement over operation sequences when a rewrite "
           "(a new helper, a reshaped body) takes the functions' text out of the proof's reach: ")
CHECKS["C02"]["text"] += _BEHIND + "71 single-file log histories compared with a model after every step and after every reopen (payload sizes around the 1/2/3-byte prefix steps and the 1024-byte read chunk, records ending on the preallocated end of the file, entries above the growth step)."
CHECKS["C03"]["text"] += _BEHIND + "the same 71 single-file histories (cuts 1 / 20 / 60 / 129 entries back, re-appends shorter / equal / longer than the removed suffix, page-sized suffixes, reopen)."
CHECKS["C01"]["text"] += " The single-file log histories of C02 / C03 (bounded) also run for this property."
CHECKS["C05"]["text"] += " The always-on bounded index-actor stand-in now also restarts the actor between saves (copy of the directory, fresh process view): 9 792 sequences."
CHECKS["C09"]["text"] += _BEHIND + "every sequence of <= 5 operations out of 10 on two keys (publish x / y, remove, provisional routed value) with content, md5, history and listing compared after every step."
CHECKS["C10"]["text"] += (" Second build round: Subscriber::{remove_client_subscribe, remove_config_key} (loops over an owned HashSet) are proved, not assumed; the Subscribe / RemoveSubscribe / "
                          "RemoveSubscribeClient arms of the handler carry the subscription relation and the immediate stale-md5 answer." + _BEHIND +
                          "subscription sequences (two connections, key sets, end of connection) next to the long-poll schedules.")
CHECKS["C12"]["text"] += " The registry bookkeeping stand-in (bounded, 168 420 operation sequences) also decides the disconnect clause: exactly the ephemeral instances owned by the closed connection disappear."
CHECKS["C13"]["text"] += _BEHIND + "144 pairs of heartbeat patterns on a virtual clock (healthy while beating within the time-out, unhealthy / gone one tick after the time-outs at the latest, persistent and gRPC-owned instances untouched)."
CHECKS["C16"]["text"] += " An always-on BOUNDED stand-in covers the token store both auth checks ask (DirectCacheManager: a token is refused after its lifetime, also on a node restored from a snapshot; never-issued and removed tokens refused)."
CHECKS["C18"]["text"] += " An always-on BOUNDED stand-in covers the chain stored user record -> login session -> request for 20 privilege groups (prost round trip, From<UserDo>, user_namespace_privilege!)."
CHECKS["C19"]["text"] += _BEHIND + "publish histories with batch size 3, a restart + log replay after every prefix and further publishes: every id drawn above every earlier one."
CHECKS["C07"]["text"] += " The start-up stand-in (real start-up sequence over a real data directory, bounded) and the history-id stand-in also run for this property (replay path against the leader path)."


# ---- third build round: C08 claimed partially (T20: actor future chains lambda-lifted mechanically)
CHECKS["C08"] = {
    "text": "PARTIAL. Proof (Verus, unbounded, effect log T17 + actor-future-chain transformation T20) of the handler a follower runs when the Raft core has installed a snapshot: "
            "the real StateApplyManager::apply_snapshot — its `async move {..}.into_actor(self).map(..).wait(ctx)` chain is lambda-lifted mechanically on every run (block body verbatim) — "
            "sends the membership recorded in the snapshot header (member list, joint-consensus list only when present, address table) to the index manager first and then hands EVERY record of "
            "the snapshot file, in file order, to the component that owns its tree (the same function of the record as the start-up path, snap_effs), nothing else; "
            "Handler<StateApplyRequest>::handle carries this for the ApplySnapshot message; StateApplyManager::do_load_snapshot (loop over the reader, any number of records). "
            "The obligation failed on the tree as found (the record load was commented out: finding S22, repaired by 14576d3). "
            "What a follower SERVES after an install is decided only by an always-on BOUNDED stand-in through the real FileStore (RaftStorage) API: 84 (history, compaction point, follower lag) runs, "
            "also after a restart of the follower.",
    "note": "KNOWN FINDINGS on the unchanged tree (bounded stand-in, known_findings.json): S23 a follower keeps serving keys the installed snapshot no longer holds (components merge, nothing is cleared); "
            "S24 a follower whose log ends before the snapshot refuses every entry behind it (delete_through None mapped to SplitOff(0), pointer range put in front of the open log). "
            "Assumed: A-WAIT (actix runs the waited future and its map closure before the next message; checked that nothing effectful follows the chain), A-ACTOR (what a component does with a record: bounded only), "
            "A-SNAPIMAGE (the installed file is a snapshot image as SnapshotWriterActor writes it: length prefixes fit 32 bits), the snapshot transfer itself (async-raft chunk stream, network), "
            "RaftSnapshotManager::install_snapshot (catalogue; refused by T20's tail-position rule) and RaftLogManager (pointer log) — bounded stand-in only; several processes: not modelled (two actor sets in one process).",
    "design_ref": "DESIGN.md §0.10",
    "technique": "contract-based deductive verification (Verus) of functions extracted verbatim from /repo on every run; actor future chains lambda-lifted mechanically (T20); bounded native stand-in for the served state",
}
CHECKS["C01"]["text"] += (" Third build round: the start-up chain itself is under contract (T20): StateApplyManager::{load_snapshot, load_log, load_complete, do_load_snapshot} — the snapshot manager is asked for the last "
                          "snapshot, every record of the file it names goes to the component that owns its tree in file order, then ONE replay request for exactly [snapshot_next_index, last_applied_log + 1) with a loader "
                          "wired to this node's components, then the end-of-loading announcements, nothing else.")
CHECKS["C07"]["text"] += " Third build round: StateApplyManager::load_log (the replay request names exactly the entries behind the snapshot) is under contract (T20)."

CHECKS["C08"]["text"] += (" The reader of the installed file is under contract as well (unit snapshot, real SnapshotReader::{init_by_file, get_header, read_record}): for EVERY chunking of the file by `read` the header is "
                          "the decoded first frame and read_record yields the decoded frames behind it in order, up to the first zero length / incomplete frame; a fault-free, fully decodable image is read to its end. "
                          "Unit raftdata ASSUMES exactly the clause text that unit snapshot PROVES (compared on every run).")
CHECKS["C01"]["text"] += (" The snapshot file reader (unit snapshot: SnapshotReader::{init, get_header, read_record}) is under contract for every chunking of the file; the start-up chain assumes exactly the clause text proved there.")

CHECKS["C05"]["text"] += (" Third build round: the actor level is real text now (T20): RaftIndexManager::{write_index, write_last_applied_log} with their wait chains lambda-lifted, the six setters, load_index_info and "
                          "Handler<RaftIndexRequest>::handle are verified against the FILE — every save message ends, before the next message is taken, with memory and file holding exactly the saved value behind the "
                          "untouched other half (no I/O fault), touching nothing it does not name; LoadIndexInfo answers what was saved last.")
CHECKS["C05"]["note"] += (" Third build round: A-WAIT is now the scheduling assumption of T20 (the waited future and its map closure run before the next message; the handler's Ok precedes the write in real time — crash window, C04), "
                          "no longer a hand-written model; A-VECWRITE (quick_protobuf Writer over a Vec cannot fail), A-RECORDSIZE (index records fit a 32-bit length), do_notify_membership (T7).")
CHECKS["C04"]["text"] += " Third build round: the two index-file writers have an always-on BOUNDED crash-image stand-in behind their proof (a save driven one poll at a time, the file copied after every poll, 44 images, each reopened with the real init; seed C04-3)."

CHECKS["C01"]["text"] += (" StateApplyManager::{init, load_index} are under contract too: the two indexes the replay uses are exactly the last-applied index and (end of the LAST snapshot of the catalogue) + 1 that the index manager "
                          "reports (the waited future's value is exposed as a ghost result of the handler).")
CHECKS["C01"]["note"] += " A-INDEXSANE: the index manager never reports a snapshot ending at u64::MAX (reply_sane); A-SNAPIMAGE; A-WAIT."

# ---- third build round, later: snapshot writer + round trip, storage boundary, reply log
CHECKS["C01"]["text"] += (" The snapshot CODEC is proved on both sides (unit snapshot): SnapshotWriter::{init, write_record, flush} and the writer actor (three T20 chains + its message handler) — a new snapshot file holds exactly "
                          "the framed header (this obligation failed on the tree as found: finding S25, a leftover file of the same name kept its tail and a restart served removed data; repaired by 479e47b), every Record "
                          "message appends exactly that record's frame — and the spec theorem lemma_snapshot_roundtrip: the image the writer produces is accepted by the reader, which yields exactly that header and exactly those "
                          "records in that order (under A-DTO, A-CODEC, A-SNAPNONEMPTY). An always-on BOUNDED round-trip stand-in (real writer actor, real file, real reader; record sizes up to 3 MiB; fresh files and longer leftovers) stands behind it.")
CHECKS["C07"]["text"] += (" The chain now starts at the storage boundary async-raft calls (impl RaftStorage for FileStore, T11 + T17): apply_entry_to_state_machine sends ONE ApplyRequest(index, entry), replicate_to_state_machine ONE "
                          "ApplyBatchRequest with every entry unchanged in order, append_entry_to_log / replicate_to_log ONE Write / WriteBatch with the entries' records in order and acknowledge only what the log manager reported, "
                          "delete_logs_from ONE StripLogToIndex(start). The three-path stand-in also drives one 60-entry follower batch in a single handler run (seed C07-6).")
CHECKS["C05"]["text"] += (" At the storage boundary (unit raftdata): FileStore::save_hard_state sends ONE SaveHardState(term, vote or 0); FileStore::get_initial_state returns exactly the term, vote (0 = none), last-applied index and member set "
                          "the index manager reports (reply log: the answers a function got are a ghost sequence its postcondition can talk about).")
CHECKS["C08"]["text"] += (" FileStore::finalize_snapshot_installation is under contract: catalogue entry under the id the file was created with, then the very file to the apply manager, then split-off, membership query, pointer entry — in this order, nothing else.")

CHECKS["C01"]["text"] += (" Compaction dispatch is under contract as well: StateApplyManager::do_build_snapshot (effect log + reply log: header = (compaction index, term of that entry, membership as reported), all seven components write into THAT writer, "
                          "flush, catalogue entry (id, same index) — in this order) and RaftSnapshotManager::{get_next_id, complete_snapshot, save_snapshot_to_index, load_snapshot_header} (the completed snapshot is the last catalogue entry, "
                          "the catalogue goes to the index manager in one message).")

CHECKS["C08"]["text"] += (" FileStore::create_snapshot is under contract: ONE NewSnapshotForLoad message, and the file handed to the Raft core is NEW and empty whatever a file of that name held before — this obligation failed on the tree as found "
                          "(finding S26: no truncation, the tail of a longer leftover file was loaded into the follower's state machine; repaired by 80bfefa); the install stand-in has a leftover-file probe.")
CHECKS["C08"]["note"] += " A-REPLYSHAPE: the snapshot manager answers NewSnapshotForLoad with NewSnapshotForLoad(path, id) or an error (its handler is not under contract)."
CHECKS["C01"]["text"] += " FileStore::do_log_compaction (storage boundary of a compaction) is under contract."

# ---- fourth build round
CHECKS["C09"]["text"] += (" Fourth build round: ConfigActor::get_config_info_by_keys (the read-by-keys the MCP / console layers use) is under contract, no longer an assumed stub: the answer is exactly the stored rows of the named keys, "
                          "in the order asked, unstored keys skipped, each row carrying the key, the stored content, the stored md5 and the stored description; the count is the number of rows (3 self-test mutations: md5 := content, "
                          "group / data id swapped, lookup under a permuted key).")
CHECKS["C09"]["text"] += (" ConfigActor::get_config_info_page (the join of a listing page with the store) is under contract too: total = length of THE canonical result list, and for its window [offset, offset+limit) one row per listed key, "
                          "in page order, carrying the key and the STORED description (content and md5 only when the query asks for them) — the clause 'one row per listed key' is where the store invariant (index within store) meets "
                          "the index contract; the window clauses assumed for the callee TenantIndex::query_config_page are compared textually, on every run, with the ones proved in unit configindex ([[same_block]]); "
                          "a window whose end offset + limit overflows usize is not decided (4 self-test mutations).")
CHECKS["C09"]["note"] = CHECKS["C09"]["note"].replace("ConfigActor::get_config_info_page (joins the page with the store) and the HTTP/gRPC layers are not decided.",
                          "the derived Default of ConfigInfoDto is axiomatised (T1: Option fields None); ConfigActor::get_history_info_page and the HTTP/gRPC layers are not decided.")
