#!/usr/bin/env python3
"""Confirm a seeded property-breaking change and run the checks against it.

usage: seedcheck.py <dir with patch.diff, demo_*.rs, meta.json> <seed-name> [--props C11,C12]
 1. scratch copy of /repo (rsync, no target/.git): baseline lib tests with the patch (must be 36 pass + the 1 known failure),
    demo test with the patch (must FAIL) and without it (must PASS)          [native, CARGO_TARGET_DIR=/verif/.cache/native-target]
 2. `git -C /repo apply`, run ./check for the given properties (default: all claimed), `git -C /repo checkout -- .`
 3. keep patch/demo/meta + results under /verif/seeded/<seed-name>/
"""
import glob
import json
import os
import re
import shutil
import subprocess
import sys
import tempfile

VERIF = os.path.dirname(os.path.dirname(os.path.abspath(__file__)))
TARGET = os.path.join(VERIF, ".cache", "native-target")
KNOWN_FAIL = "raft::filestore::raftlog::tests::write_index_equal_error_when_index_mismatch"


def cargo_test(dst, flt=None):
    env = dict(os.environ, CARGO_NET_OFFLINE="true", CARGO_TARGET_DIR=TARGET, RUST_BACKTRACE="0")
    cmd = ["cargo", "test", "--lib", "--offline", "-p", "rnacos"] + ([flt] if flt else []) + ["--", "--test-threads", "4"]
    import fcntl
    os.makedirs(TARGET, exist_ok=True)
    with open(os.path.join(TARGET, ".vx_native_lock"), "w") as lk:      # same lock as lib/native.py
        fcntl.flock(lk, fcntl.LOCK_EX)
        sys.path.insert(0, os.path.dirname(os.path.abspath(__file__)))
        import native
        native.touch_sources(dst)
        p = subprocess.run(cmd, cwd=dst, env=env, capture_output=True, text=True, timeout=3600)
    out = p.stdout + p.stderr
    m = re.search(r"test result: \w+\. (\d+) passed; (\d+) failed", out)
    failed = re.findall(r"^test (\S+) \.\.\. FAILED", out, re.M)
    return (int(m.group(1)), int(m.group(2)), failed, out) if m else (None, None, failed, out)


def main():
    src = sys.argv[1]
    name = sys.argv[2]
    props = None
    if "--props" in sys.argv:
        props = sys.argv[sys.argv.index("--props") + 1].split(",")
    meta = json.load(open(os.path.join(src, "meta.json")))
    demo = glob.glob(os.path.join(src, "demo_*.rs"))[0]
    out_dir = os.path.join(VERIF, "seeded", name)
    os.makedirs(out_dir, exist_ok=True)
    shutil.copy(os.path.join(src, "patch.diff"), os.path.join(out_dir, "patch.diff"))
    shutil.copy(demo, os.path.join(out_dir, os.path.basename(demo)))
    patch = os.path.join(out_dir, "patch.diff")
    result = {"property": meta["property"], "what_breaks": meta.get("what_breaks"), "needs_to_manifest": meta.get("needs_to_manifest"),
              "owning_source_file": meta["owning_source_file"], "test_name": meta["test_name"], "agent_meta": meta}
    scratch = tempfile.mkdtemp(prefix="vx_seed_")
    try:
        dst = os.path.join(scratch, "repo")
        subprocess.run(["rsync", "-a", "--exclude", "target", "--exclude", ".git", "/repo/", dst + "/"], check=True)
        subprocess.run(["git", "init", "-q"], cwd=dst)
        r = subprocess.run(["git", "apply", patch], cwd=dst, capture_output=True, text=True)
        if r.returncode != 0:
            result["confirmed"] = False
            result["error"] = "patch does not apply to the current /repo: " + r.stderr[:400]
            json.dump(result, open(os.path.join(out_dir, "meta.json"), "w"), indent=1)
            print(json.dumps(result, indent=1))
            return 1
        pa, fa, failed, out = cargo_test(dst)
        result["suite_with_change"] = {"passed": pa, "failed": fa, "failed_tests": failed}
        suite_ok = (fa == 1 and failed == [KNOWN_FAIL]) or fa == 0
        own = os.path.join(dst, meta["owning_source_file"])
        modline = '\n#[cfg(test)]\n#[path = "%s"]\nmod vx_seed_demo;\n' % os.path.join(out_dir, os.path.basename(demo))
        open(own, "a").write(modline)
        _, _, failed_with, out_with = cargo_test(dst, meta["test_name"])
        fails_with = any(meta["test_name"] in f for f in failed_with)
        # without the change
        subprocess.run(["git", "apply", "-R", patch], cwd=dst, check=True)
        p2, f2, failed_wo, out_wo = cargo_test(dst, meta["test_name"])
        passes_without = (p2 or 0) >= 1 and not any(meta["test_name"] in f for f in failed_wo)
        result["demo"] = {"fails_with_change": fails_with, "passes_without_change": passes_without,
                          "tail_with": out_with[-600:], "tail_without": out_wo[-300:]}
        result["confirmed"] = bool(suite_ok and fails_with and passes_without)
    finally:
        shutil.rmtree(scratch, ignore_errors=True)
    # run the checks against /repo with the change applied
    checks = {}
    if result["confirmed"] and "--no-checks" not in sys.argv:
        man = json.load(open(os.path.join(VERIF, "MANIFEST.json")))
        ids = props or [c["property_id"] for c in man["checks"]]
        st = subprocess.run(["git", "-C", "/repo", "status", "--porcelain", "--untracked-files=no"], capture_output=True, text=True).stdout.strip()
        if st:
            print("refusing: /repo has local modifications:\n" + st)
            return 2
        subprocess.run(["git", "-C", "/repo", "apply", patch], check=True)
        try:
            for pid in ids:
                p = subprocess.run([os.path.join(VERIF, "check"), pid, "--no-evidence"], capture_output=True, text=True)
                lines = [l for l in p.stdout.split("\n") if l.startswith(("VIOLATION", "obligation failed", "UNDECIDED", "KNOWN"))]
                checks[pid] = {"exit": p.returncode, "lines": lines[:6]}
        finally:
            subprocess.run(["git", "-C", "/repo", "checkout", "--", "."], check=True)
        for f in glob.glob(os.path.join(VERIF, "replays", "*")):
            os.remove(f)
    result["checks_with_change_applied"] = checks
    result["caught_by"] = sorted(k for k, v in checks.items() if v["exit"] == 1)
    if "--no-checks" in sys.argv:
        # confirmation only (scratch copy); which check catches it was established separately (see `note`)
        result["note"] = os.environ.get("VX_SEED_NOTE", "")
    result["what_was_run"] = ["cargo test -p rnacos --lib --offline (scratch copy with patch)", "demo test with / without patch", "./check <id> --no-evidence with patch applied to /repo, then git checkout"]
    json.dump(result, open(os.path.join(out_dir, "meta.json"), "w"), indent=1)
    print(json.dumps({k: result[k] for k in ("property", "confirmed", "caught_by", "suite_with_change", "demo") if k in result}, indent=1)[:1500])
    for k, v in checks.items():
        print(k, v["exit"], v["lines"][:2])
    return 0


if __name__ == "__main__":
    sys.exit(main())
