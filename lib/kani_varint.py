"""Kani companion for the varint decoder (kani/varint): the REAL src/common/protobuf_utils.rs is included by #[path];
two loop-free-in-effect harnesses (unwind 12 covers the reference decoder's 10 iterations; unwinding assertions on) compare
`read_varint64_offset` with `ref_decode` for EVERY slice of at most 12 bytes and offset at most 2.  `ref_decode` itself is
proved equal to the spec (vlen, vval) by Verus in unit pbutils, so the contract that Verus units ASSUME for
`read_varint64_offset` is discharged for these sizes.  Bounds are stated in the evidence; larger offsets are not proved.
"""
import os
import re
import shutil
import subprocess
import tempfile
import time

VERIF = os.path.dirname(os.path.dirname(os.path.abspath(__file__)))
TARGET = os.path.join(VERIF, ".cache", "kani-target")
HARNESSES = ["ok_case", "err_case"]
BOUND = "every slice of <= 12 bytes, offset <= 2 (all 2^96 byte values symbolic); unwinding assertions on (unwind 12 > 10 loop iterations of the reference decoder)"


def _prepare(repo):
    d = tempfile.mkdtemp(prefix="vx_kani_varint_")
    shutil.copytree(os.path.join(VERIF, "kani", "varint"), os.path.join(d, "c"))
    c = os.path.join(d, "c")
    m = os.path.join(c, "src", "main.rs")
    src = os.path.join(os.path.abspath(repo), "src")
    txt = open(m).read().replace("VX_REPO_SRC", src)
    open(m, "w").write(txt)
    lock = os.path.join(repo, "Cargo.lock")
    if not os.path.exists(lock):
        lock = "/repo/Cargo.lock"
    shutil.copy(lock, os.path.join(c, "Cargo.lock"))
    return d, c


def run(repo="/repo", playback=False):
    """returns list of dicts {harness, status: ok|failed|undecided, seconds, detail, cex}; serialised on a lock file (one Kani target dir),
    retried once when undecided"""
    import fcntl
    os.makedirs(TARGET, exist_ok=True)
    with open(os.path.join(TARGET, ".vx_lock"), "w") as lk:
        fcntl.flock(lk, fcntl.LOCK_EX)
        res = _run(repo, playback)
        if any(r["status"] == "undecided" for r in res):
            res = _run(repo, playback)
        return res


def _run(repo, playback):
    d, c = _prepare(repo)
    out = []
    try:
        env = dict(os.environ, CARGO_NET_OFFLINE="true", CARGO_TARGET_DIR=TARGET)
        for h in HARNESSES:
            t0 = time.time()
            cmd = ["cargo", "kani", "-Z", "stubbing", "--harness", h]
            try:
                p = subprocess.run(cmd, cwd=c, env=env, capture_output=True, text=True, timeout=1500)
            except subprocess.TimeoutExpired:
                out.append({"harness": h, "status": "undecided", "seconds": round(time.time() - t0, 1), "detail": "timeout", "cex": None, "cmd": " ".join(cmd)})
                continue
            txt = p.stdout + p.stderr
            dt = round(time.time() - t0, 1)
            stub_ok = re.search(r"- Stub: anyhow\s*::\s*__private\s*::\s*format_err", txt) is not None
            cov = re.search(r"\*\* (\d+) of (\d+) cover properties satisfied", txt)
            cov_ok = bool(cov) and cov.group(1) == cov.group(2) and int(cov.group(2)) > 0
            if "VERIFICATION:- SUCCESSFUL" in txt and stub_ok and cov_ok:
                out.append({"harness": h, "status": "ok", "seconds": dt, "detail": cov.group(0), "cex": None, "cmd": " ".join(cmd)})
            elif "VERIFICATION:- FAILED" in txt:
                failed = re.findall(r"Check \d+: ([^\n]*)\n\s*- Status: FAILURE\n\s*- Description: \"([^\"]*)\"", txt)
                cex = None
                if playback:
                    cex = _playback(c, env, h)
                out.append({"harness": h, "status": "failed", "seconds": dt, "detail": "; ".join("%s: %s" % f for f in failed[:4]), "cex": cex,
                            "cmd": " ".join(cmd), "output_tail": txt[-3000:]})
            else:
                why = "stub line missing" if not stub_ok else ("cover properties not all satisfied (vacuous harness?)" if not cov_ok else "no verdict")
                out.append({"harness": h, "status": "undecided", "seconds": dt, "detail": why + ": " + txt[-1500:], "cex": None, "cmd": " ".join(cmd)})
    finally:
        shutil.rmtree(d, ignore_errors=True)
    return out


def _playback(c, env, h):
    """concrete counterexample: the 12 array bytes, n, off"""
    try:
        p = subprocess.run(["cargo", "kani", "-Z", "stubbing", "-Z", "concrete-playback", "--concrete-playback=print", "--harness", h],
                           cwd=c, env=env, capture_output=True, text=True, timeout=1500)
    except subprocess.TimeoutExpired:
        return None
    txt = p.stdout + p.stderr
    # one playback test is printed per cover property and per failing check: take the first one that belongs to a failing assertion
    blocks = txt.split("Concrete playback unit test for")
    blocks = [b for b in blocks if re.search(r"Check for `(?!cover)", b)]
    if not blocks:
        return None
    vecs = re.findall(r"vec!\[([0-9,\s]*)\],", blocks[0])
    vals = [[int(x) for x in v.replace(" ", "").split(",") if x] for v in vecs]
    if len(vals) < 3:
        return None
    # concrete_vals: one vec per kani::any() in call order: arr (12 x 1 byte or 1 x 12), n (8 bytes), off (8 bytes)
    flat = [v for v in vals]
    try:
        if len(flat[0]) == 12:
            arr, n, off = flat[0], int.from_bytes(bytes(flat[1]), "little"), int.from_bytes(bytes(flat[2]), "little")
        else:
            arr = [v[0] for v in flat[:12]]
            n, off = int.from_bytes(bytes(flat[12]), "little"), int.from_bytes(bytes(flat[13]), "little")
    except Exception:
        return {"raw": vals[:16]}
    return {"bytes": arr, "n": n, "offset": off}


def native_replay(repo, cex):
    """replay the counterexample on the real function against the reference decoder"""
    import native
    if not cex or "bytes" not in cex:
        return None
    ref = open(os.path.join(VERIF, "kani", "varint", "ref_decode.rs")).read()
    d = tempfile.mkdtemp(prefix="vx_kani_replay_")
    try:
        f = os.path.join(d, "replay.rs")
        open(f, "w").write("use super::*;\n" + ref + """
#[test]
fn vx_varint_replay() {
    let arr: [u8; 12] = %s;
    let (n, off) = (%dusize, %dusize);
    let s = &arr[..n];
    let rf = ref_decode(&s[off..]);
    let got = read_varint64_offset(s, off);
    match (rf, got) {
        (Some((_, w)), Ok(v)) => assert!(w > u64::MAX as u128 || v as u128 == w, "read_varint64_offset({:?}, {}) = {} but the varint there is {}", s, off, v, w),
        (Some((l, w)), Err(e)) => assert!(w > u64::MAX as u128, "read_varint64_offset({:?}, {}) failed ({}) but a {}-byte varint {} is there", s, off, e, l, w),
        (None, Ok(v)) => assert!(n - off < 10, "read_varint64_offset({:?}, {}) = {} but no varint ends within 10 bytes", s, off, v),
        (None, Err(_)) => {}
    }
}
""" % (str(cex["bytes"]), cex["n"], cex["offset"]))
        try:
            rc, out = native.run_native([("src/common/protobuf_utils.rs", f)], "vx_varint_replay", repo=repo)
        except Exception as e:
            return {"reproduced": False, "error": str(e)[:400]}
        return {"reproduced": rc != 0 and "panicked" in out, "test": open(f).read()[-900:], "output_tail": out[-1200:]}
    finally:
        shutil.rmtree(d, ignore_errors=True)


if __name__ == "__main__":
    import json, sys
    print(json.dumps(run(sys.argv[1] if len(sys.argv) > 1 else "/repo", playback=True), indent=1)[:3000])
