"""Run Verus on an assembled unit and classify the outcome (DESIGN.md §4)."""
import json
import os
import re
import shutil
import subprocess
import tempfile
import time

import assemble
from assemble import Undecided, VERIF

VERUS = shutil.which("verus") or "/usr/local/bin/verus"

# messages that mean "the verifier generated this obligation and could not discharge it"
VERIF_FAIL = [
    "postcondition not satisfied", "precondition not satisfied", "assertion failed",
    "possible arithmetic underflow/overflow", "invariant not satisfied before loop",
    "invariant not satisfied at end of loop body", "decreases not satisfied",
    "possible division by zero", "possible bit shift underflow/overflow",
    "loop ensures not satisfied", "invariant not satisfied", "could not prove termination",
    "unable to prove", "not satisfied", "failed this", "possible",
]
RLIMIT_MSG = ["Resource limit (rlimit) exceeded", "rlimit"]


def split_error_blocks(stderr):
    blocks = []
    cur = None
    for line in stderr.split("\n"):
        if re.match(r"^(error|warning|note)(\[[A-Z0-9]+\])?:", line):
            if cur:
                blocks.append(cur)
            cur = [line]
        elif cur is not None:
            cur.append(line)
    if cur:
        blocks.append(cur)
    out = []
    for b in blocks:
        head = b[0]
        m = re.match(r"^(error|warning|note)(\[([A-Z0-9]+)\])?:\s*(.*)$", head)
        kind, code, msg = m.group(1), m.group(3), m.group(4)
        locs = []
        for l in b[1:]:
            mm = re.match(r"^\s*(-->|:::)\s*(.*?):(\d+):(\d+)", l)
            if mm:
                locs.append((mm.group(2), int(mm.group(3)), int(mm.group(4))))
        out.append({"kind": kind, "code": code, "msg": msg, "locs": locs, "text": "\n".join(b)})
    return out


def fn_line_map(text):
    """approximate map line -> qualified fn name of the generated file"""
    lines = text.split("\n")
    cur_impl = None
    cur_mod = []
    heads = []  # (line_no, qualified name)
    fn_re = re.compile(r"^\s*(?:#\[[^\]]*\]\s*)*(?:pub(?:\([a-z]+\))?\s+)?(?:(?:open|closed|broadcast|uninterp|const|unsafe|async|exec|spec|proof|tracked|ghost)\s+)*fn\s+(\w+)")
    impl_re = re.compile(r"^impl(?:<[^>]*>)?\s+(?:[\w:<>, ]+\s+for\s+)?([\w:]+)")
    for i, l in enumerate(lines, 1):
        m = impl_re.match(l)
        if m:
            cur_impl = m.group(1)
            continue
        if l.startswith("}"):
            cur_impl = None
        m = fn_re.match(l)
        if m:
            q = (cur_impl + "::" if cur_impl else "") + m.group(1)
            heads.append((i, q))
    return heads


def fn_at(heads, line):
    name = None
    for (ln, q) in heads:
        if ln <= line:
            name = q
        else:
            break
    return name


class UnitResult:
    def __init__(self):
        self.unit = None
        self.funcs = {}        # name -> {success, ms, rlimit, mode}
        self.errors = []       # verification-failure blocks: {fn, msg, clause, text}
        self.rlimit_fns = set()
        self.verified = 0
        self.nerrors = 0
        self.wall_s = 0.0
        self.smt_ms = 0
        self.cmd = ""
        self.text = ""
        self.manifest = []
        self.transformations = []
        self.stderr = ""
        self.undecided = None  # reason string


def run_verus(text, stem, scratch, rlimit=None, extra=None, timeout=1800):
    path = os.path.join(scratch, stem + ".rs")
    with open(path, "w") as f:
        f.write(text)
    cmd = [VERUS, path, "--output-json", "--time-expanded", "--multiple-errors", "100", "--triggers-mode", "silent"]
    if rlimit:
        cmd += ["--rlimit", str(rlimit)]
    if extra:
        cmd += extra
    t0 = time.time()
    try:
        p = subprocess.run(cmd, capture_output=True, text=True, cwd=scratch, timeout=timeout)
    except subprocess.TimeoutExpired:
        raise Undecided("verus timed out after %ds on %s" % (timeout, stem))
    wall = time.time() - t0
    return p, wall, cmd


def analyse(p, wall, cmd, text, stem):
    res = UnitResult()
    res.wall_s = wall
    res.cmd = " ".join(cmd)
    res.text = text
    res.stderr = p.stderr
    try:
        j = json.loads(p.stdout)
    except Exception:
        j = None
    blocks = split_error_blocks(p.stderr)
    heads = fn_line_map(text)
    lines = text.split("\n")
    if j is None:
        res.undecided = "verus produced no JSON (exit %s): %s" % (p.returncode, p.stderr[-1500:])
        return res
    vr = j.get("verification-results", {})
    res.verified = vr.get("verified", 0)
    res.nerrors = vr.get("errors", 0)
    have_breakdown = True
    try:
        mods = j["times-ms"]["smt"]["smt-run-module-times"]
        res.smt_ms = j["times-ms"]["smt"].get("smt-run", 0)
    except Exception:
        mods = []
        have_breakdown = False
    for m in mods:
        for fb in m.get("function-breakdown", []):
            name = fb["function"]
            if name.startswith(stem + "::"):
                name = name[len(stem) + 2:]
            d = res.funcs.setdefault(name, {"success": True, "ms": 0.0, "rlimit": 0, "mode": fb.get("mode:", fb.get("mode", ""))})
            d["success"] = d["success"] and bool(fb["success"])
            d["ms"] += fb.get("time-micros", 0) / 1000.0
            d["rlimit"] += fb.get("rlimit", 0)
    failing = set(n for n, d in res.funcs.items() if not d["success"])
    hard = []
    for b in blocks:
        if b["kind"] != "error":
            continue
        if b["msg"].startswith("aborting due to"):
            continue
        if b["code"]:
            hard.append(b)
            continue
        low = b["msg"]
        fn = fn_at(heads, b["locs"][0][1]) if b["locs"] else None
        if any(x in low for x in RLIMIT_MSG):
            res.rlimit_fns.add(fn)
            continue
        if any(x in low for x in VERIF_FAIL) or (fn in failing):
            clause = ""
            if b["locs"]:
                ln = b["locs"][0][1]
                if 1 <= ln <= len(lines):
                    clause = lines[ln - 1].strip()
            sec = ""
            if len(b["locs"]) > 1:
                ln2 = b["locs"][1][1]
                if 1 <= ln2 <= len(lines):
                    sec = lines[ln2 - 1].strip()
            # every generated-file line shown in the diagnostic snippet (secondary spans such as the failed
            # invariant / precondition are printed in the same snippet, without their own `-->`)
            shown = []
            for sl in b["text"].split("\n"):
                mm = re.match(r"^\s*(\d+)\s*\|", sl)
                if mm:
                    k = int(mm.group(1))
                    if 1 <= k <= len(lines):
                        shown.append(lines[k - 1])
            sec = (sec + " " + " ".join(shown)).strip()
            res.errors.append({"fn": fn, "msg": low, "clause": clause, "clause2": sec,
                               "line": b["locs"][0][1] if b["locs"] else 0, "text": b["text"]})
            continue
        hard.append(b)
    if hard or vr.get("encountered-vir-error"):
        res.undecided = "verus rejected the unit (not a verification failure): " + (hard[0]["text"][:1500] if hard else "vir error: " + p.stderr[-1500:])
        return res
    if not have_breakdown:
        res.undecided = "verus JSON has no function breakdown: " + p.stderr[-1500:]
    return res


def build_unit_text(unit, repo=None, canary=False):
    udir = os.path.join(VERIF, "units", unit)
    asm = assemble.assemble_unit(udir, repo=repo, canary=canary)
    return asm


def run_unit(unit, scratch, repo=None, rlimit=None, canary=False, extra=None):
    asm = build_unit_text(unit, repo=repo, canary=canary)
    stem = "vx_" + unit + ("_canary" if canary else "")
    rl = rlimit or asm["unit"].get("rlimit")
    p, wall, cmd = run_verus(asm["text"], stem, scratch, rlimit=rl, extra=extra)
    res = analyse(p, wall, cmd, asm["text"], stem)
    res.unit = unit
    res.manifest = asm["manifest"]
    res.transformations = asm["transformations"]
    res.unit_cfg = asm["unit"]
    res.canary_fns = asm.get("canary_fns", [])
    return res
