#!/usr/bin/env python3
"""Regenerate /verif/MANIFEST.json from lib/manifest_data.py and validate it against the schema."""
import json, os, sys
sys.path.insert(0, os.path.dirname(os.path.abspath(__file__)))
import manifest_data as M
VERIF = os.path.dirname(os.path.dirname(os.path.abspath(__file__)))
checks = []
for pid, c in sorted(M.CHECKS.items()):
    checks.append({
        "property_id": pid,
        "quick_cmd": "./check %s --tier quick" % pid,
        "thorough_cmd": "./check %s --tier thorough" % pid,
        "evidence_file": "/verif/evidence/%s.json" % pid,
        "replay_cmd_template": "./check %s --replay {path}" % pid,
        "engine": c.get("engine", "verus"),
        "level_claimed": {"category": c.get("category", "proof"), "text": c["text"], "design_ref": c.get("design_ref", "DESIGN.md §5 " + pid)},
        "level_note": c["note"],
        "technique": c.get("technique", "contract-based deductive verification (Verus) of functions extracted verbatim from /repo on every run"),
    })
m = {
    "version": 1,
    "setup_cmd": M.SETUP,
    "hooks": M.HOOKS,
    "engines": M.ENGINES,
    "checks": checks,
    "notes": M.NOTES,
    "not_applicable": [{"property_id": k, "reason": v} for k, v in sorted(M.NOT_APPLICABLE.items())],
}
json.dump(m, open(os.path.join(VERIF, "MANIFEST.json"), "w"), indent=1)
try:
    import jsonschema
    jsonschema.validate(m, json.load(open("/root/.vp/MANIFEST.schema.json")))
    print("MANIFEST.json valid: %d checks, %d not applicable" % (len(checks), len(m["not_applicable"])))
except ImportError:
    print("MANIFEST.json written (jsonschema not importable in this python)")
ids = set(json.loads(l)["id"] for l in open(os.path.join(VERIF, "properties.jsonl")))
cov = set(M.CHECKS) | set(M.NOT_APPLICABLE)
assert ids == cov, (ids - cov, cov - ids)
