"""Per-property additions to the Verus verdict: Kani companions, native replays (C14)."""


def run(prop, tier, repo, seed, status, lines, ev, only_units=None):
    return status, lines, ev
