"""Per-property additions to the Verus verdict of lib/check.py: generated lemma files (C17 tables),
Kani companions, native replays."""
import hashlib
import json
import os
import shutil
import tempfile
import time

import runner
from assemble import Undecided, VERIF


def _add_obligations(ev, obls):
    cov = ev["coverage"]
    cov.setdefault("obligation_list", []).extend(obls)
    cov["obligations"] = cov.get("obligations", 0) + len(obls)
    cov["discharged"] = cov.get("discharged", 0) + len([o for o in obls if o["discharged"]])


def c17_tables(repo, status, lines, ev):
    import permission_tables as pt
    t0 = time.time()
    an = pt.analyse(repo)
    text = pt.emit_verus(an)
    scratch = tempfile.mkdtemp(prefix="vx_C17t_")
    try:
        p, wall, cmd = runner.run_verus(text, "vx_permission_tables", scratch)
        res = runner.analyse(p, wall, cmd, text, "vx_permission_tables")
    finally:
        shutil.rmtree(scratch, ignore_errors=True)
    if res.undecided:
        lines.append("UNDECIDED: permission tables: " + res.undecided[:800])
        return (2 if status == 0 else status), lines, ev
    want = ["lemma_L1_visitor_read_only", "lemma_L2_developer_no_user_no_transfer", "lemma_L3_role_order_on_registered_routes", "lemma_tables_nonempty"]
    obls = []
    for w in want:
        d = res.funcs.get(w)
        if d is None:
            lines.append("UNDECIDED: permission tables: lemma %s was not generated" % w)
            return (2 if status == 0 else status), lines, ev
        obls.append({"name": "permission_tables/" + w, "engine": "verus", "backend": "z3 (Verus SMT encoding)", "mode": "proof",
                     "ms": round(d["ms"], 1), "rlimit": d["rlimit"], "discharged": bool(d["success"])})
    _add_obligations(ev, obls)
    cov = ev["coverage"]
    cov["checker_cmd"] = cov.get("checker_cmd", "") + " ; " + res.cmd
    cov.setdefault("table_data", {})
    cov["table_data"] = {"visitor_entries": len(an["tables"][2]), "developer_entries": len(an["tables"][1]), "manager_entries": len(an["tables"][0]),
                         "registered_routes": len(an["routes"]), "interned_strings": len(an["strings"]),
                         "extraction": "regex over comment-stripped lazy_static text (T6); strings interned to integers, distinctness checked"}
    cov.setdefault("trusted_base", []).append("[permission_tables] role_table(i) := union of the R::Path literals of the M_* modules listed in the R_* initialiser, read from the lazy_static! text (T6); that the real constructors compute exactly this union is proved in unit permission (ModuleResource::new == path_set_of, GroupResource::new == union_paths)")
    cov["trusted_base"].append("[permission_tables] classification of 'login/self-service', 'user management' and 'transfer' paths is taken from the property statement (lib/permission_tables.py)")
    failing = [o for o in obls if not o["discharged"]]
    for o in failing:
        key = o["name"].split("lemma_")[1][:2]
        offenders = an["bad"].get(key, [])
        os.makedirs(os.path.join(VERIF, "replays"), exist_ok=True)
        h = hashlib.sha256(json.dumps(offenders, sort_keys=True).encode()).hexdigest()[:10]
        path = os.path.join(VERIF, "replays", "C17-permission_tables-%s-%s.json" % (key, h))
        replay_note = "no-failing-input-found"
        native = None
        if offenders:
            native = native_c17(repo, key, offenders)
            if native and native.get("reproduced"):
                replay_note = ""
        json.dump({"property": "C17", "unit": "permission_tables", "failed_obligation": o["name"],
                   "failing_inputs": offenders, "native_replay": native,
                   "verifier_output": "\n\n".join(e["text"] for e in res.errors),
                   "how_to_replay": "cd /verif && ./check C17 --replay " + path}, open(path, "w"), indent=1)
        lines.append("obligation failed: %s — offending table entries: %s" % (o["name"], json.dumps(offenders[:3])))
        lines.append(("VIOLATION property=C17 replay=%s %s" % (path, replay_note)).rstrip())
        ev["violations"] = ev.get("violations", 0) + 1
        status = 1
    return status, lines, ev


def native_c17(repo, key, offenders):
    """replay the verifier's counterexample against the real UserRole::match_url_by_roles"""
    import native
    tests = []
    for i, o in enumerate(offenders[:5]):
        p, m = o["path"].replace("*", ""), o["method"].replace("*", "POST")
        if key == "L1":
            tests.append('    assert!(!UserRole::match_url_by_roles(&vec![Arc::new("2".to_string())], "%s", "%s"), "visitor is granted %s %s");' % (p, m, m, p))
        elif key == "L2":
            tests.append('    assert!(!UserRole::match_url_by_roles(&vec![Arc::new("1".to_string())], "%s", "%s"), "developer is granted %s %s");' % (p, m, m, p))
        else:
            lo, hi = ("2", "1") if "visitor may" in o["why"] else ("1", "0")
            tests.append('    assert!(!UserRole::match_url_by_roles(&vec![Arc::new("%s".to_string())], "%s", "%s") || UserRole::match_url_by_roles(&vec![Arc::new("%s".to_string())], "%s", "%s"), "role %s may %s %s but role %s may not");'
                         % (lo, p, m, hi, p, m, lo, m, p, hi))
    d = tempfile.mkdtemp(prefix="vx_c17replay_")
    try:
        f = os.path.join(d, "replay.rs")
        open(f, "w").write("use super::*;\n#[test]\nfn vx_c17_replay() {\n" + "\n".join(tests) + "\n}\n")
        try:
            rc, out = native.run_native([("src/user/permission.rs", f)], "vx_c17_replay", repo=_repo_root(repo))
        except Exception as e:
            return {"reproduced": False, "error": str(e)[:500]}
        return {"reproduced": rc != 0 and "panicked" in out, "test": open(f).read(), "output_tail": out[-1500:]}
    finally:
        shutil.rmtree(d, ignore_errors=True)


def _repo_root(repo):
    # --repo may point at a scratch dir that only holds src/: overlay it on /repo for native runs
    return repo


def kani_varint(prop, repo, status, lines, ev):
    import kani_varint as kv
    res = kv.run(repo, playback=True)
    obls = []
    for r in res:
        obls.append({"name": "kani/varint/" + r["harness"], "engine": "kani", "backend": "cbmc (Kani 0.68)", "mode": "exec",
                     "ms": round(r["seconds"] * 1000.0, 1), "rlimit": 0, "discharged": r["status"] == "ok",
                     "note": "complete for the stated input space (not a sample): " + kv.BOUND})
    _add_obligations(ev, obls)
    cov = ev["coverage"]
    cov["checker_cmd"] = cov.get("checker_cmd", "") + " ; " + " ; ".join(r["cmd"] for r in res)
    cov.setdefault("kani", {})
    cov["kani"] = {"harness_crate": "kani/varint (includes /repo/src/common/protobuf_utils.rs by #[path])", "input_space": kv.BOUND,
                   "what": "read_varint64_offset == ref_decode on that space; ref_decode == (vlen, vval) is a Verus obligation of unit pbutils",
                   "stubs": "anyhow::__private::format_err (error construction = failure in ok_case, end of path in err_case)",
                   "not_covered": "offsets > 2 (the function reads bytes[offset + k], k < 10, only); termination is not an issue (straight-line code)"}
    cov.setdefault("trusted_base", []).append("[kani/varint] the contract of read_varint64_offset that the Verus units ASSUME is discharged by Kani for slices of <= 12 bytes and offsets <= 2 only; for larger offsets it stays an assumption")
    for r in res:
        if r["status"] == "undecided":
            lines.append("UNDECIDED: kani/varint/%s: %s" % (r["harness"], r["detail"][:600]))
            if status == 0:
                status = 2
        elif r["status"] == "failed":
            os.makedirs(os.path.join(VERIF, "replays"), exist_ok=True)
            native = kv.native_replay(repo, r["cex"]) if r["cex"] else None
            h = hashlib.sha256(json.dumps(r["cex"], sort_keys=True).encode()).hexdigest()[:10]
            path = os.path.join(VERIF, "replays", "%s-kani-varint-%s-%s.json" % (prop, r["harness"], h))
            reproduced = bool(native and native.get("reproduced"))
            json.dump({"property": prop, "unit": "kani/varint", "failed_obligation": "kani/varint/" + r["harness"] + " — " + r["detail"],
                       "counterexample": r["cex"], "native_replay": native, "verifier_output": r.get("output_tail", ""),
                       "how_to_replay": "cd /verif && python3 lib/kani_varint.py"}, open(path, "w"), indent=1)
            lines.append("obligation failed: kani/varint/%s — %s — counterexample %s" % (r["harness"], r["detail"][:200], json.dumps(r["cex"])))
            lines.append(("VIOLATION property=%s replay=%s %s" % (prop, path, "" if reproduced else "no-failing-input-found")).rstrip())
            ev["violations"] = ev.get("violations", 0) + 1
            status = 1
    return status, lines, ev


def run(prop, tier, repo, seed, status, lines, ev, only_units=None):
    if prop in ("C20", "C02") and (not only_units or "pbutils" in only_units) and os.path.exists(os.path.join(repo, "src", "common", "protobuf_utils.rs")):
        try:
            status, lines, ev = kani_varint(prop, repo, status, lines, ev)
        except Exception as e:
            lines.append("UNDECIDED: kani/varint: %s" % str(e)[:600])
            if status == 0:
                status = 2
    if prop == "C17" and (not only_units or "permission" in only_units):
        try:
            status, lines, ev = c17_tables(repo, status, lines, ev)
        except Undecided as e:
            lines.append("UNDECIDED: permission tables: %s" % e)
            if status == 0:
                status = 2
    return status, lines, ev
