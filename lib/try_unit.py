import sys, os, subprocess, time
sys.path.insert(0, os.path.dirname(__file__))
import assemble
u = sys.argv[1]
r = assemble.assemble_unit(os.path.join(assemble.VERIF, "units", u))
out = "/tmp/vx_%s.rs" % u
open(out, "w").write(r["text"])
t=time.time()
p = subprocess.run(["verus", out, "--multiple-errors", "50", "--triggers-mode", "silent"] + sys.argv[2:], capture_output=True, text=True)
print(p.stdout[-3000:]); print(p.stderr[-12000:]); print("exit", p.returncode, "%.1fs"%(time.time()-t))
