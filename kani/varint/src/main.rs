#![allow(dead_code, unused_imports)]
#[path = "VX_REPO_SRC/common/protobuf_utils.rs"]
mod protobuf_utils;
#[path = "../ref_decode.rs"]
mod ref_decode;

fn main() {}

#[cfg(kani)]
mod harness {
    use super::protobuf_utils::read_varint64_offset;
    use super::ref_decode::ref_decode;

    fn err_is_failure(_a: std::fmt::Arguments) -> anyhow::Error { panic!("read_varint64_offset built an error") }
    fn err_ends_path(_a: std::fmt::Arguments) -> anyhow::Error { kani::assume(false); loop {} }

    /// every slice of at most 12 bytes, offset at most 2: where the reference decoder finds a varint of at most 10 bytes whose
    /// value fits u64, the real decoder returns Ok(that value) and never builds an error
    #[kani::proof]
    #[kani::unwind(12)]
    #[kani::stub(anyhow::__private::format_err, err_is_failure)]
    fn ok_case() {
        let arr: [u8; 12] = kani::any();
        let n: usize = kani::any();
        let off: usize = kani::any();
        kani::assume(n >= 1 && n <= 12 && off < n && off <= 2);
        let s = &arr[..n];
        let rf = ref_decode(&s[off..]);
        kani::assume(rf.is_some());
        let (len, w) = rf.unwrap();
        kani::assume(w <= u64::MAX as u128);
        kani::cover!(len == 1);
        kani::cover!(len == 5);
        kani::cover!(len == 10 && off == 2);
        match read_varint64_offset(s, off) {
            Ok(v) => assert!(v as u128 == w),
            Err(_) => assert!(false),
        }
    }

    /// where 10 bytes are available and none of them ends a varint, the real decoder does not return Ok
    #[kani::proof]
    #[kani::unwind(12)]
    #[kani::stub(anyhow::__private::format_err, err_ends_path)]
    fn err_case() {
        let arr: [u8; 12] = kani::any();
        let n: usize = kani::any();
        let off: usize = kani::any();
        kani::assume(n >= 1 && n <= 12 && off < n && off <= 2 && n - off >= 10);
        let s = &arr[..n];
        kani::assume(ref_decode(&s[off..]).is_none());
        kani::cover!(off == 0 && n == 10);
        match read_varint64_offset(s, off) {
            Ok(_) => assert!(false),
            Err(_) => {}
        }
    }
}
