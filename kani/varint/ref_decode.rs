// Reference decoder for the leading varint of a byte string (plain Rust: compiled by rustc for the Kani harness and, through
// unit pbutils, put under a Verus contract that says it computes exactly (vlen, vval) of the spec).
pub fn ref_decode(s: &[u8]) -> Option<(usize, u128)> {
    let mut i: usize = 0;
    let mut val: u128 = 0;
    let mut mul: u128 = 1;
    while i < s.len() && i < 10 {
        let b = s[i];
        if b & 0x80 == 0 {
            return Some((i + 1, val + (b as u128) * mul));
        }
        val = val + ((b & 0x7f) as u128) * mul;
        mul = mul * 128;
        i += 1;
    }
    None
}
