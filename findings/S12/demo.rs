// S12 (C02): LogInnerManager::read_records moves the file cursor of the data handle (directly, and through the try_clone'd
// reader that shares the OS cursor) and only at its very end records that the next append has to seek back
// (`need_seek_at_write = true`).  Every early `?` exit — a read error, a record that does not decode — leaves the cursor
// somewhere inside the log with need_seek_at_write == false; RaftLogRequest::Query swallows the error
// (`unwrap_or_default`), and the next acknowledged append is written over existing entries.
// The read error is injected with a handle that cannot read (write-only); everything else is the real code.
// Runs against the real crate (appended as a test module of src/raft/filestore/raftlog/mod.rs).
use super::*;

fn rec(index: u64, term: u64) -> LogRecordDto { LogRecordDto { index, term, value: vec![7u8; 24] } }

#[tokio::test]
async fn s12_a_failed_read_must_not_make_the_next_append_overwrite_the_log() {
    let temp = tempfile::tempdir().unwrap();
    let p = temp.path().join("log_s12").to_string_lossy().into_owned();
    {
        let mut mgr = LogInnerManager::init(p.clone(), 0, 0, 0).await.unwrap();
        for i in 0..4u64 { assert!(matches!(mgr.write(&rec(i, 1)).await.unwrap(), LogWriteMark::Success)); }
        // a query whose read fails (EBADF on a write-only handle)
        mgr.data_file = OpenOptions::new().write(true).open(&p).await.unwrap();
        mgr.need_seek_at_write = true;                       // the fresh handle starts at 0: position it where the old one was
        assert!(matches!(mgr.write(&rec(4, 1)).await.unwrap(), LogWriteMark::Success));   // appends at the end (seeks first)
        assert!(mgr.read_records(1, 3).await.is_err(), "the injected read failure did not happen");
        // the next acknowledged append
        assert!(matches!(mgr.write(&rec(5, 2)).await.unwrap(), LogWriteMark::Success));
        mgr.flush_log().await.unwrap();
    }
    let mut mgr = LogInnerManager::init(p.clone(), 0, 0, 0).await.unwrap();
    assert_eq!(mgr.get_end_index(), 6, "end index after reopen");
    let all = mgr.read_records(0, 6).await.unwrap();
    let got: Vec<(u64, u64)> = all.iter().map(|r| (r.index, r.term)).collect();
    assert_eq!(got, vec![(0, 1), (1, 1), (2, 1), (3, 1), (4, 1), (5, 2)], "acknowledged entries after reopen");
}
