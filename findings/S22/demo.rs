// S22 (C08): a node that is caught up by a snapshot INSTALL does not serve what the snapshot holds.
// `StateApplyManager::apply_snapshot` reads the header of the installed file and saves its membership, but the call that
// hands the snapshot's records to the state-machine components is commented out (`//Self::do_load_snapshot(reader).await?;`).
// History: a leader commits three writes and compacts; a fresh follower receives exactly what
// `FileStore::finalize_snapshot_installation` sends (the file is created by the follower's own snapshot manager, filled with
// the leader's bytes as async-raft's chunk stream does, then InstallSnapshot + ApplySnapshot).  The follower must serve the
// leader's configuration and namespaces.  It serves nothing — until it is RESTARTED, when the start-up path loads the same file.
use super::*;

use crate::cache::core::DirectCacheManager;
use crate::config::core::{ConfigActor, ConfigCmd, ConfigKey, ConfigResult};
use crate::mcp::core::McpManager;
use crate::namespace::model::{NamespaceParam, NamespaceQueryReq, NamespaceQueryResult, NamespaceRaftReq};
use crate::namespace::NamespaceActor;
use crate::naming::core::NamingActor;
use crate::raft::db::table::TableManager;
use crate::raft::filestore::raftlog::RaftLogManagerRequest;
use crate::raft::store::ClientRequest;
use crate::sequence::core::SequenceDbManager;
use async_raft::raft::{Entry, EntryNormal};
use std::time::Duration;

struct S22Node {
    index_manager: Addr<RaftIndexManager>,
    log_manager: Addr<RaftLogManager>,
    snapshot_manager: Addr<RaftSnapshotManager>,
    data_wrap: Arc<RaftDataHandler>,
}

fn s22_start_node(base_path: Arc<String>) -> S22Node {
    let index_manager = RaftIndexManager::new(base_path.clone()).start();
    let log_manager = RaftLogManager::new(base_path.clone(), Some(index_manager.clone())).start();
    let snapshot_manager = RaftSnapshotManager::new(base_path.clone(), Some(index_manager.clone())).start();
    let data_wrap = Arc::new(RaftDataHandler {
        config: ConfigActor::new().start(),
        table: TableManager::new().start(),
        namespace: NamespaceActor::new(1).start(),
        sequence_db: SequenceDbManager::new().start(),
        mcp_manager: McpManager::new().start(),
        naming_actor: NamingActor::new().start(),
        direct_cache_manager: DirectCacheManager::new().start(),
    });
    S22Node { index_manager, log_manager, snapshot_manager, data_wrap }
}

fn s22_apply_manager(node: &S22Node) -> Addr<StateApplyManager> {
    let (index_manager, snapshot_manager, log_manager, data_wrap) =
        (node.index_manager.clone(), node.snapshot_manager.clone(), node.log_manager.clone(), node.data_wrap.clone());
    StateApplyManager::create(move |ctx| {
        let mut act = StateApplyManager::new();
        act.index_manager = Some(index_manager);
        act.snapshot_manager = Some(snapshot_manager);
        act.log_manager = Some(log_manager);
        act.data_wrap = Some(data_wrap);
        act.init(ctx);
        act
    })
}

fn s22_config_set(data_id: &str, value: &str, history_id: u64) -> ClientRequest {
    ClientRequest::ConfigSet { key: format!("{}\x02DEFAULT_GROUP\x02", data_id), value: Arc::new(value.to_owned()), config_type: None, desc: None, history_id,
        history_table_id: Some(history_id), op_time: 1_700_000_000_000 + history_id as i64, op_user: None }
}

async fn s22_commit(node: &S22Node, index: u64, req: ClientRequest) {
    let entry = Entry { term: 1, index, payload: EntryPayload::Normal(EntryNormal { data: req.clone() }) };
    let record = StoreUtils::entry_to_record(&entry).unwrap();
    let (tx, rx) = tokio::sync::oneshot::channel();
    node.log_manager.send(RaftLogManagerRequest::Write { record, sender: tx }).await.unwrap().unwrap();
    rx.await.unwrap().unwrap();
    StateApplyManager::async_apply_request_to_state_machine(ApplyRequestDto::new(index, req), &node.data_wrap, node.index_manager.clone()).await.unwrap();
}

async fn s22_observe(node: &S22Node) -> String {
    let mut out = String::new();
    for id in ["a", "b"] {
        match node.data_wrap.config.send(ConfigCmd::GET(ConfigKey::new(id, "DEFAULT_GROUP", ""))).await.unwrap().unwrap() {
            ConfigResult::Data { value, md5, .. } => out.push_str(&format!("cfg[{}]=({},{}) ", id, value, md5)),
            _ => out.push_str(&format!("cfg[{}]=none ", id)),
        }
    }
    if let NamespaceQueryResult::List(list) = node.data_wrap.namespace.send(NamespaceQueryReq::List).await.unwrap().unwrap() {
        let mut l: Vec<String> = list.iter().map(|x| format!("{}={}", x.namespace_id, x.namespace_name)).collect();
        l.sort();
        out.push_str(&format!("ns={:?} ", l));
    }
    out
}

#[test]
fn s22_follower_caught_up_by_snapshot_install_serves_the_leaders_data() {
    let base = std::env::temp_dir().join(format!("vx_s22_{}", std::process::id()));
    let _ = std::fs::remove_dir_all(&base);
    let (dir_l, dir_f, dir_r) = (base.join("leader"), base.join("follower"), base.join("follower-restarted"));
    for d in [&dir_l, &dir_f, &dir_r] { std::fs::create_dir_all(d).unwrap(); }
    let sys = actix::System::new();
    let (leader_serves, follower_serves, restarted_serves) = sys.block_on(async {
        // ---- the leader: three committed writes, then a compaction
        let leader = s22_start_node(Arc::new(dir_l.to_string_lossy().into_owned()));
        let mut addrs = std::collections::HashMap::new();
        addrs.insert(1u64, Arc::new("127.0.0.1:9848".to_owned()));
        addrs.insert(2u64, Arc::new("127.0.0.1:9849".to_owned()));
        leader.index_manager.send(RaftIndexRequest::SaveMember { member: vec![1, 2], member_after_consensus: None, node_addr: Some(addrs) }).await.unwrap().unwrap();
        s22_commit(&leader, 1, s22_config_set("a", "value-a", 1)).await;
        s22_commit(&leader, 2, s22_config_set("b", "value-b", 2)).await;
        s22_commit(&leader, 3, ClientRequest::NamespaceReq(NamespaceRaftReq::Set(NamespaceParam {
            namespace_id: Arc::new("ns1".to_owned()), namespace_name: Some("first".to_owned()), r#type: None }))).await;
        let (_header, leader_snapshot_path, _id) = StateApplyManager::do_build_snapshot(leader.log_manager.clone(), leader.index_manager.clone(),
            leader.snapshot_manager.clone(), leader.data_wrap.clone(), 3).await.expect("leader compaction");
        tokio::time::sleep(Duration::from_millis(300)).await;
        let snapshot_bytes = std::fs::read(leader_snapshot_path.as_str()).expect("leader snapshot file");
        let leader_serves = s22_observe(&leader).await;

        // ---- the follower: a fresh node; what FileStore::{create_snapshot, finalize_snapshot_installation} do on it
        let follower = s22_start_node(Arc::new(dir_f.to_string_lossy().into_owned()));
        let apply = s22_apply_manager(&follower);
        apply.send(StateApplyRequest::GetLastAppliedLog).await.unwrap().unwrap();
        let (path, snapshot_id) = match follower.snapshot_manager.send(RaftSnapshotRequest::NewSnapshotForLoad).await.unwrap().unwrap() {
            RaftSnapshotResponse::NewSnapshotForLoad(path, id) => (path, id),
            _ => panic!("NewSnapshotForLoad"),
        };
        std::fs::write(&path, &snapshot_bytes).unwrap();      // the chunk stream of InstallSnapshot RPCs, written by async-raft
        let file = tokio::fs::OpenOptions::new().read(true).write(true).create(true).open(path.as_str()).await.unwrap();
        follower.snapshot_manager.send(RaftSnapshotRequest::InstallSnapshot { end_index: 3, snapshot_id }).await.unwrap().unwrap();
        apply.send(StateApplyRequest::ApplySnapshot { snapshot: Box::new(file) }).await.unwrap().unwrap();
        // the apply future runs under ctx.wait: the next message is answered only after it has finished
        apply.send(StateApplyRequest::GetLastAppliedLog).await.unwrap().unwrap();
        tokio::time::sleep(Duration::from_millis(500)).await;
        let follower_serves = s22_observe(&follower).await;

        // ---- the same follower after a restart (copy of its directory, real start-up sequence)
        tokio::time::sleep(Duration::from_millis(1200)).await;
        for item in std::fs::read_dir(&dir_f).unwrap() {
            let item = item.unwrap();
            if item.file_name().to_string_lossy() == "db_lock" { continue; }
            if item.path().is_file() { std::fs::copy(item.path(), dir_r.join(item.file_name())).unwrap(); }
        }
        let restarted = s22_start_node(Arc::new(dir_r.to_string_lossy().into_owned()));
        let apply2 = s22_apply_manager(&restarted);
        apply2.send(StateApplyRequest::GetLastAppliedLog).await.unwrap().unwrap();
        tokio::time::sleep(Duration::from_millis(300)).await;
        let restarted_serves = s22_observe(&restarted).await;
        (leader_serves, follower_serves, restarted_serves)
    });
    let _ = std::fs::remove_dir_all(&base);
    println!("S22 leader serves:             {}", leader_serves);
    println!("S22 follower after install:    {}", follower_serves);
    println!("S22 follower after a restart:  {}", restarted_serves);
    assert_eq!(follower_serves, leader_serves, "the follower that was caught up by a snapshot install does not serve the leader's data (after a restart it serves: {})", restarted_serves);
}
