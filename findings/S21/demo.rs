// S21 (C04 / C01): the fresh-file branch of RaftIndexInnerManager::init writes the 8-byte last-applied header through
// Writer::write_bytes, i.e. WITH a length prefix (09 bytes: 08 00 00 00 00 00 00 00 00).  write_index then writes the record at
// offset 8 and leaves bytes 0..8 = 08 00 .. 00 in place, so until the first write_last_applied_log a restart reads the
// last-applied index 0x0800_0000_0000_0000 — far past anything the log can reproduce (start-up replay then runs over every
// entry in the log files, applied or not).
// History: fresh directory; membership + addresses saved (acknowledged); restart before any entry was applied.
use super::*;

#[tokio::test]
async fn s21_last_applied_index_of_a_fresh_store_survives_restart() {
    let temp = tempfile::tempdir().unwrap();
    let p = temp.path().join("index").to_string_lossy().into_owned();
    {
        let mut m = RaftIndexInnerManager::init(&p).await.unwrap();
        assert_eq!(m.last_applied_log, 0);
        let mut dto = m.raft_index.clone();
        dto.current_term = 1;
        dto.voted_for = 1;
        dto.member = vec![1, 2, 3];
        dto.node_addrs.insert(1, Arc::new("127.0.0.1:9848".to_string()));
        dto.node_addrs.insert(2, Arc::new("127.0.0.1:9849".to_string()));
        m.write_index(dto).await.unwrap(); // acknowledged
        m.flush().await.unwrap();
    }
    let len = std::fs::metadata(&p).unwrap().len();
    let m = RaftIndexInnerManager::init(&p).await.unwrap();
    assert_eq!(m.raft_index.member, vec![1, 2, 3]);
    assert_eq!(m.last_applied_log, 0,
        "nothing was ever applied, yet the restarted store reports last-applied index {:#x} (index file length {})", m.last_applied_log, len);
}
