// S3 (C03): LogInnerManager::get_file_index_by_log_index computes the number of index-area bytes to rewind from the
// LOG-INDEX delta of the popped entries (always 128 -> 2 bytes) instead of their FILE-OFFSET delta (1..5 bytes).
// With 128 records spanning >= 16384 bytes an index entry is 3 bytes wide: after a truncation across an index boundary
// the index cursor is off by one, the next index entry is written behind a stale byte, and after reopen the index is
// wrong: acknowledged entries are lost.
// Runs against the real crate (appended as a test module of src/raft/filestore/raftlog/mod.rs).
use super::*;

fn rec(index: u64, term: u64) -> LogRecordDto { LogRecordDto { index, term, value: vec![5u8; 200] } }

#[tokio::test]
async fn s3_truncate_across_index_boundary_then_reappend_survives_reopen() {
    let temp = tempfile::tempdir().unwrap();
    let p = temp.path().join("log_s3").to_string_lossy().into_owned();
    {
        let mut mgr = LogInnerManager::init(p.clone(), 0, 0, 0).await.unwrap();
        for i in 0..300u64 { assert!(matches!(mgr.write(&rec(i, 1)).await.unwrap(), LogWriteMark::Success)); }
        mgr.strip_log_to(200).await.unwrap();
        assert_eq!(mgr.get_end_index(), 200);
        for i in 200..300u64 { assert!(matches!(mgr.write(&rec(i, 2)).await.unwrap(), LogWriteMark::Success)); }
        mgr.flush_log().await.unwrap();
        assert_eq!(mgr.get_end_index(), 300);
    }
    let mut mgr = LogInnerManager::init(p.clone(), 0, 0, 0).await.unwrap();
    assert_eq!(mgr.get_end_index(), 300, "acknowledged entries lost after truncate + re-append + reopen");
    let got = mgr.read_records(255, 259).await.unwrap();
    assert_eq!(got.iter().map(|r| (r.index, r.term)).collect::<Vec<_>>(), vec![(255, 2), (256, 2), (257, 2), (258, 2)]);
}
