// S18 (C03): RaftLogManager::strip_log_to_index walks its log files from the OLDEST one and stops at the first file
// whose end lies at or below the cut (`else { break; }`): as soon as the log spans more than one file, a conflict
// truncation whose cut lies in a later file removes NOTHING — and still answers Success.  The follower then keeps the
// conflicting suffix; the append that follows the truncation is refused with LogIndexEqualError.
// A second file is reached by filling the sparse index area of the first one (about 173 000 small entries).
// Runs against the real crate (appended as a test module of src/raft/filestore/raftlog/mod.rs).
use super::*;
use crate::raft::filestore::raftindex::RaftIndexManager;

fn rec(index: u64, term: u64) -> LogRecordDto { LogRecordDto { index, term, value: vec![9u8; 4] } }

async fn write_batch(mgr: &Addr<RaftLogManager>, from: u64, to: u64, term: u64) -> anyhow::Result<WriteLogResult> {
    let (tx, rx) = tokio::sync::oneshot::channel();
    let records: Vec<LogRecordDto> = (from..to).map(|i| rec(i, term)).collect();
    mgr.send(RaftLogManagerRequest::WriteBatch { records, sender: tx }).await.unwrap().unwrap();
    rx.await.unwrap()
}

async fn last_index(mgr: &Addr<RaftLogManager>) -> u64 {
    match mgr.send(RaftLogManagerAsyncRequest::GetLastLogIndex).await.unwrap().unwrap() { RaftLogResponse::LastLogIndex(i) => i.index, _ => panic!() }
}

#[actix::test]
async fn s18_truncation_in_the_second_log_file_removes_the_suffix() {
    let temp = tempfile::tempdir().unwrap();
    let base = Arc::new(temp.path().to_string_lossy().into_owned());
    let index_manager = RaftIndexManager::new(base.clone()).start();
    let mgr = RaftLogManager::new(base.clone(), Some(index_manager.clone())).start();
    tokio::time::sleep(std::time::Duration::from_millis(300)).await;
    // fill the first file until the manager switches to a second one, then 1000 entries into the second
    let mut next = 1u64;
    let mut files = 1usize;
    while files < 2 {
        let r = write_batch(&mgr, next, next + 2000, 1).await;
        assert!(matches!(r, Ok(WriteLogResult::Success)), "batch at {}: {:?}", next, r.map(|_| ()));
        next += 2000;
        files = std::fs::read_dir(temp.path()).unwrap().filter(|e| e.as_ref().unwrap().file_name().to_string_lossy().starts_with("log_")).count();
        assert!(next < 400_000, "no second log file after {} entries", next);
    }
    let r = write_batch(&mgr, next, next + 1000, 1).await;
    assert!(matches!(r, Ok(WriteLogResult::Success)));
    next += 1000;
    assert_eq!(last_index(&mgr).await, next - 1);
    // conflict truncation 300 entries below the end: the cut lies in the newest file
    let cut = next - 300;
    let (tx, rx) = tokio::sync::oneshot::channel();
    mgr.send(RaftLogManagerRequest::StripLogToIndex { end_index: cut, sender: tx }).await.unwrap().unwrap();
    assert!(matches!(rx.await.unwrap(), Ok(WriteLogResult::Success)));
    tokio::time::sleep(std::time::Duration::from_millis(300)).await;
    assert_eq!(last_index(&mgr).await, cut - 1, "last log index after strip_log_to_index({})", cut);
    let r = write_batch(&mgr, cut, cut + 10, 2).await;
    assert!(matches!(r, Ok(WriteLogResult::Success)), "the append at the cut is refused");
    match mgr.send(RaftLogManagerAsyncRequest::Query { start: cut - 2, end: cut + 2 }).await.unwrap().unwrap() {
        RaftLogResponse::QueryResult(list) => {
            let got: Vec<(u64, u64)> = list.iter().map(|r| (r.index, r.term)).collect();
            assert_eq!(got, vec![(cut - 2, 1), (cut - 1, 1), (cut, 2), (cut + 1, 2)]);
        }
        _ => panic!(),
    }
}
