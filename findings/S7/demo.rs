// S7 (C14): InnerNodeManage::get_current_process_range uses this node's rank among ALL nodes as its slot but the number of
// VALID nodes as the modulus.  With a lower-id node down, some residues have no owner and the owner a node computes for
// itself disagrees with the node HTTP writes are routed to (NodeManage::route_addr uses the rank among valid nodes).
// Runs against the real crate (appended as a test module of src/naming/cluster/node_manage.rs).
use super::*;

fn manage(local: u64, ids: &[u64], down: &[u64]) -> InnerNodeManage {
    let mut m = InnerNodeManage::new(local);
    for id in ids {
        m.all_nodes.insert(*id, ClusterInnerNode {
            id: *id, index: 0, is_local: *id == local, addr: Arc::new(format!("127.0.0.1:{}", 9000 + id)),
            status: if down.contains(id) { NodeStatus::Invalid } else { NodeStatus::Valid },
            last_active_time: 0, sync_sender: None, client_set: Default::default(),
        });
    }
    m.update_nodes_index();
    m
}

#[test]
fn s7_every_hash_has_exactly_one_live_owner_and_routing_agrees() {
    // the view that fails on the unrepaired code first (nodes 1,2,3 with node 1 down), then every view of 4 nodes
    check_view(&[1, 2, 3], &[1]);
    let ids = [1u64, 2, 5, 9];
    for mask in 0u32..15 {
        let down: Vec<u64> = ids.iter().enumerate().filter(|(i, _)| mask & (1 << i) != 0).map(|(_, id)| *id).collect();
        check_view(&ids, &down);
    }
}

fn check_view(ids: &[u64], down: &[u64]) {
    let live: Vec<u64> = ids.iter().copied().filter(|i| !down.contains(i)).collect();
    // what each live node computes for itself
    let ranges: Vec<(u64, ProcessRange)> = live.iter().map(|id| (*id, manage(*id, ids, down).get_current_process_range())).collect();
    for hash in 0usize..12 {
        let owners: Vec<u64> = ranges.iter().filter(|(_, r)| r.is_range(hash)).map(|(id, _)| *id).collect();
        assert_eq!(owners.len(), 1, "hash {} is owned by {:?} (ranges {:?})", hash, owners, ranges);
        // NodeManage::route_addr: index = hash % (number of valid nodes), target = valid nodes in id order
        let routed = live[hash % live.len()];
        assert_eq!(owners[0], routed, "hash {} is routed to node {} but owned by node {}", hash, routed, owners[0]);
    }
}
