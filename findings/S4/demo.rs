// S4 (C03 / C02): LogInnerManager::strip_log_to writes only the two bytes [0, 1] at the new data cursor and at the new
// index cursor.  Bytes of the removed suffix (records behind the cut, popped index entries) stay in the file, and
// `write` puts no end marker behind a record: after re-appending, the stale bytes follow the new entries directly and
// are read back as entries / index entries on reopen.
// Runs against the real crate (appended as a test module of src/raft/filestore/raftlog/mod.rs).
use super::*;

fn rec(index: u64, term: u64, n: usize) -> LogRecordDto { LogRecordDto { index, term, value: vec![3u8; n] } }

#[tokio::test]
async fn s4_removed_entries_do_not_come_back_after_reappend_and_reopen() {
    let temp = tempfile::tempdir().unwrap();
    let p = temp.path().join("log_s4").to_string_lossy().into_owned();
    {
        let mut mgr = LogInnerManager::init(p.clone(), 0, 0, 0).await.unwrap();
        for i in 0..5u64 { assert!(matches!(mgr.write(&rec(i, 1, 16)).await.unwrap(), LogWriteMark::Success)); }
        mgr.strip_log_to(2).await.unwrap();                       // delete the log from index 2
        assert_eq!(mgr.get_end_index(), 2);
        assert!(matches!(mgr.write(&rec(2, 2, 16)).await.unwrap(), LogWriteMark::Success));   // re-append at 2, same size
        mgr.flush_log().await.unwrap();
        assert_eq!(mgr.get_end_index(), 3);
    }
    let mut mgr = LogInnerManager::init(p.clone(), 0, 0, 0).await.unwrap();
    assert_eq!(mgr.get_end_index(), 3, "entries of the removed suffix came back after reopen");
    let got = mgr.read_records(0, 10).await.unwrap();
    assert_eq!(got.iter().map(|r| (r.index, r.term)).collect::<Vec<_>>(), vec![(0, 1), (1, 1), (2, 2)]);
}

#[tokio::test]
async fn s4_popped_index_entries_do_not_come_back_after_reappend_and_reopen() {
    let temp = tempfile::tempdir().unwrap();
    let p = temp.path().join("log_s4b").to_string_lossy().into_owned();
    {
        let mut mgr = LogInnerManager::init(p.clone(), 0, 0, 0).await.unwrap();
        for i in 0..300u64 { assert!(matches!(mgr.write(&rec(i, 1, 16)).await.unwrap(), LogWriteMark::Success)); }
        mgr.strip_log_to(100).await.unwrap();                     // pops the index entries at 128 and 256
        for i in 100..140u64 { assert!(matches!(mgr.write(&rec(i, 2, 40)).await.unwrap(), LogWriteMark::Success)); }   // pushes a new entry at 128
        mgr.flush_log().await.unwrap();
        assert_eq!(mgr.get_end_index(), 140);
    }
    let mut mgr = LogInnerManager::init(p.clone(), 0, 0, 0).await.unwrap();
    assert_eq!(mgr.indexs.len(), 2, "a popped index entry came back after reopen");
    assert_eq!(mgr.get_end_index(), 140);
    let got = mgr.read_records(126, 131).await.unwrap();
    assert_eq!(got.iter().map(|r| (r.index, r.term)).collect::<Vec<_>>(), vec![(126, 2), (127, 2), (128, 2), (129, 2), (130, 2)]);
}
