// S19 (C19): SeqGroup::apply_range puts ANY range it is handed into the free buffer.  The replies to range requests are handled
// by the sequence manager as independent futures; when the reply of the asynchronous refill (FillRange) is overtaken by the
// replies of later, synchronous range requests (the buffers ran dry in the meantime), the late, LOWER range is applied after
// higher ones and its ids are issued after larger ids: the sequence goes backwards.
// (SeqGroup's contract in unit sequence used to ASSUME `start >= everything applied before` of its call sites.)
// Runs against the real crate (appended as a test module of src/sequence/mod.rs).
use super::*;
use crate::sequence::core::SequenceDbManager;

#[test]
fn s19_a_refill_reply_that_arrives_late_does_not_make_ids_go_backwards() {
    let mut db = SequenceDbManager::new();
    let mut mgr = SequenceManager::new();
    mgr.seq_step = 3;
    let mut ctx: Context<SequenceManager> = Context::new();
    let key = Arc::new("seq".to_string());
    let mut range = |db: &mut SequenceDbManager| (db.next_range(key.clone(), 3).unwrap(), 3u64);
    let mut issued = vec![];
    // first request: nothing buffered, fetch [1, 4) synchronously
    assert!(mgr.do_next_id(&key).0.is_none());
    let (s, l) = range(&mut db);
    if let SequenceResult::NextId(id) = mgr.handle_result(Ok(SequenceBeforeResult::UseFromRange { key: key.clone(), start: s, len: l }), &mut ctx).unwrap() { issued.push(id); }
    // the refill is requested ([4, 7) is handed out by Raft) but its reply is slow
    let g = mgr.seq_map.get_mut(&key).unwrap();
    assert!(g.need_apply());
    g.mark_apply();
    let late = range(&mut db);
    // meanwhile the buffer runs dry and later requests fetch [7, 10) and [10, 13) synchronously
    for _ in 0..8 {
        let (id, _) = mgr.do_next_id(&key);
        match id {
            Some(id) => issued.push(id),
            None => { let (s, l) = range(&mut db); if let SequenceResult::NextId(id) = mgr.handle_result(Ok(SequenceBeforeResult::UseFromRange { key: key.clone(), start: s, len: l }), &mut ctx).unwrap() { issued.push(id); } }
        }
    }
    // now the refill reply arrives
    mgr.handle_result(Ok(SequenceBeforeResult::FillRange { key: key.clone(), start: late.0, len: late.1 }), &mut ctx).unwrap();
    for _ in 0..6 {
        let (id, _) = mgr.do_next_id(&key);
        match id {
            Some(id) => issued.push(id),
            None => { let (s, l) = range(&mut db); if let SequenceResult::NextId(id) = mgr.handle_result(Ok(SequenceBeforeResult::UseFromRange { key: key.clone(), start: s, len: l }), &mut ctx).unwrap() { issued.push(id); } }
        }
    }
    for w in issued.windows(2) { assert!(w[1] > w[0], "id {} issued after id {}: {:?}", w[1], w[0], issued); }
}
