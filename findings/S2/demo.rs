// S2 (C03): LogInnerManager::move_to_index_by_count(.., count = 0) never matches `c == count` (c is incremented first)
// and scans to the end of the file: a truncation whose cut lies exactly on an index boundary (k == start or
// k - start a multiple of 128) removes nothing, while the index entries behind the cut are popped.
// Runs against the real crate (appended as a test module of src/raft/filestore/raftlog/mod.rs).
use super::*;

fn rec(index: u64, term: u64) -> LogRecordDto { LogRecordDto { index, term, value: vec![9u8; 16] } }

#[tokio::test]
async fn s2_truncation_on_an_index_boundary_removes_the_suffix() {
    let temp = tempfile::tempdir().unwrap();
    let p = temp.path().join("log_s2").to_string_lossy().into_owned();
    let mut mgr = LogInnerManager::init(p.clone(), 0, 0, 0).await.unwrap();
    for i in 0..130u64 {
        assert!(matches!(mgr.write(&rec(i, 1)).await.unwrap(), LogWriteMark::Success));
    }
    assert_eq!(mgr.get_end_index(), 130);
    mgr.strip_log_to(128).await.unwrap();        // delete the log from index 128
    assert_eq!(mgr.get_end_index(), 128, "entries at or above the cut are still there");
    // the next append at index 128 must be accepted
    assert!(matches!(mgr.write(&rec(128, 2)).await.unwrap(), LogWriteMark::Success));
    let got = mgr.read_records(126, 130).await.unwrap();
    assert_eq!(got.iter().map(|r| (r.index, r.term)).collect::<Vec<_>>(), vec![(126, 1), (127, 1), (128, 2)]);
}
