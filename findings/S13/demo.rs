// S13 (C11 / C18): NamespaceIndex::query_service_page without a namespace in the query (the console service list when
// the request names no namespaceId) applies the page offset inside EVERY namespace instead of once to the whole
// listing: with services in more than one namespace, pages after the first skip services (they are listed on no page)
// although the reported total counts them.  Twin of S8 (config listing).
// Runs against the real crate (appended as a test module of src/naming/service_index.rs).
use super::*;

#[test]
fn s13_pages_of_an_all_namespace_service_listing_tile_the_listing() {
    let mut index = NamespaceIndex::new();
    for s in ["a1", "a2", "a3"] { index.insert_service(ServiceKey::new("na", "g", s)); }
    for s in ["b1", "b2", "b3", "b4", "b5"] { index.insert_service(ServiceKey::new("nb", "g", s)); }
    let all = ServiceQueryParam { namespace_id: None, limit: 0xffff, ..ServiceQueryParam::default() };
    let (total, full) = index.query_service_page(&all);
    assert_eq!(total, 8);
    assert_eq!(full.len(), 8);
    let page_size = 4;
    let mut seen = vec![];
    let mut page_no = 0;
    loop {
        let q = ServiceQueryParam { namespace_id: None, limit: page_size, offset: page_no * page_size, ..ServiceQueryParam::default() };
        let (t, list) = index.query_service_page(&q);
        assert_eq!(t, 8, "total on page {}", page_no + 1);
        if list.is_empty() { break; }
        seen.extend(list);
        page_no += 1;
        assert!(page_no < 10);
    }
    assert_eq!(seen, full, "the pages of size {} must tile the full listing (each service exactly once)", page_size);
}
