// S5 (C05): RaftIndexInnerManager::init treats every image of <= 20 bytes as empty and rewrites it, so a saved
// term/vote whose record is short (no log ranges, no members yet) is forgotten on restart.
// Runs against the real crate (appended as a test module of src/raft/filestore/raftindex.rs).
use super::*;

#[tokio::test]
async fn s5_short_index_image_survives_restart() {
    let temp = tempfile::tempdir().unwrap();
    let p = temp.path().join("index").to_string_lossy().into_owned();
    {
        let mut m = RaftIndexInnerManager::init(&p).await.unwrap();
        let mut dto = m.raft_index.clone();
        dto.current_term = 3;
        dto.voted_for = 2;
        m.write_index(dto).await.unwrap(); // acknowledged
        m.flush().await.unwrap();
    }
    let len = std::fs::metadata(&p).unwrap().len();
    let m = RaftIndexInnerManager::init(&p).await.unwrap();
    assert_eq!((m.raft_index.current_term, m.raft_index.voted_for), (3, 2),
        "acknowledged term/vote lost on restart (index file length {})", len);
}
