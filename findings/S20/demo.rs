// S20 (C01): the id counter of a table (TableManagerReq::NextId / Set { last_seq_id }) is not part of the snapshot.
// History: Set{T_USER, "u2", last_seq_id: Some(9)}; compaction (snapshot written by the real component actors through the
// real SnapshotWriterActor); restart from that snapshot; NextId answers 1 instead of 10.
use super::*;
use crate::raft::db::table::TableManagerResult;
use crate::raft::filestore::model::SnapshotHeaderDto;
use crate::raft::filestore::raftsnapshot::{SnapshotReader, SnapshotWriterRequest};
use std::collections::HashMap;
use std::sync::Arc;

fn s20_handler() -> RaftDataHandler {
    RaftDataHandler {
        config: ConfigActor::new().start(), table: TableManager::new().start(), namespace: NamespaceActor::new(1).start(),
        sequence_db: SequenceDbManager::new().start(), mcp_manager: McpManager::new().start(), naming_actor: NamingActor::new().start(),
        direct_cache_manager: DirectCacheManager::new().start(),
    }
}

#[test]
fn s20_table_id_counter_survives_snapshot_restart() {
    let path = std::env::temp_dir().join(format!("vx_s20_{}.snapshot", std::process::id())).to_string_lossy().to_string();
    let _ = std::fs::remove_file(&path);
    let sys = actix::System::new();
    let (before, after) = sys.block_on(async {
        let a = s20_handler();
        let users = Arc::new("T_USER".to_string());
        a.table.send(TableManagerReq::Set { table_name: users.clone(), key: b"u2".to_vec(), value: b"user-two".to_vec(), last_seq_id: Some(9) }).await.unwrap().unwrap();
        let header = SnapshotHeaderDto { last_index: 1, last_term: 1, member: vec![1], member_after_consensus: vec![], node_addrs: HashMap::new() };
        let writer = SnapshotWriterActor::new(Arc::new(path.clone()), header).start();
        a.build_snapshot(writer.clone()).await.unwrap();
        writer.send(SnapshotWriterRequest::Flush).await.unwrap().unwrap();
        let b = s20_handler();
        let mut reader = SnapshotReader::init(&path).await.unwrap();
        while let Some(record) = reader.read_record().await.unwrap() { b.load_snapshot(record).await.unwrap(); }
        b.load_complete().unwrap();
        let next = |h: &RaftDataHandler| h.table.send(TableManagerReq::NextId { table_name: users.clone(), seq_step: Some(1) });
        let x = match next(&a).await.unwrap().unwrap() { TableManagerResult::NextId(i) => i, _ => 0 };
        let y = match next(&b).await.unwrap().unwrap() { TableManagerResult::NextId(i) => i, _ => 0 };
        (x, y)
    });
    let _ = std::fs::remove_file(&path);
    assert_eq!(before, after, "the node issued table id {} before the restart and issues {} after restoring its own snapshot", before, after);
}
