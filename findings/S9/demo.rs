// S9 (C10): ConfigActor::del_config drops the gRPC subscribers of the removed key (Subscriber::remove_config_key),
// so a later publish of that key has nobody to notify although the client still listens to it.
// Runs against the real crate (appended as a test module of src/config/core.rs).
use super::*;

fn param(key: &ConfigKey, v: &str, id: u64) -> SetConfigParam {
    SetConfigParam { key: key.clone(), value: Arc::new(v.to_string()), config_type: None, desc: None,
        history_id: id, history_table_id: None, op_time: 1, op_user: None }
}

#[test]
fn s9_subscription_survives_removal_of_the_key() {
    let mut a = ConfigActor::new();
    let key = ConfigKey::new("app.yaml", "DEFAULT_GROUP", "");
    a.set_config(param(&key, "v1", 1)).unwrap();
    let md5 = Arc::new(crate::utils::get_md5("v1"));
    a.subscriber.add_subscribe(Arc::new("client-1".to_string()), vec![ListenerItem::new(key.clone(), md5)]);
    assert_eq!(a.subscriber.get_listener_key_size(), 1);
    a.del_config(key.clone()).unwrap();          // the subscriber is notified of the removal ...
    // ... and must still be subscribed, otherwise the next publish goes unreported
    assert_eq!(a.subscriber.get_listener_key_size(), 1, "subscription dropped by the removal: a later publish of the key is not notified");
    a.set_config(param(&key, "v2", 2)).unwrap();
}
