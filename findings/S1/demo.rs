// S1 (C20 / C02): a record whose frame ends exactly on a 1024-byte read boundary makes the
// end-of-log scan stop early, so acknowledged entries after it are lost on reopen.
// Runs against the real crate (appended as a test module of src/raft/filestore/raftlog/mod.rs).
use super::*;

fn rec(index: u64, term: u64, n: usize) -> LogRecordDto {
    LogRecordDto { index, term, value: vec![7u8; n] }
}

#[tokio::test]
async fn s1_entries_after_a_record_ending_on_a_read_boundary_survive_reopen() {
    // find the payload size whose frame (length prefix + message) is exactly 1024 bytes
    let mut n = 0usize;
    for cand in 900..1024usize {
        let mut buf = Vec::new();
        let mut w = Writer::new(&mut buf);
        w.write_message(&rec(0, 1, cand).to_record_do()).unwrap();
        if buf.len() == 1024 { n = cand; break; }
    }
    assert!(n > 0, "no payload size gives a 1024-byte frame");
    let temp = tempfile::tempdir().unwrap();
    let p = temp.path().join("log_s1").to_string_lossy().into_owned();
    {
        let mut mgr = LogInnerManager::init(p.clone(), 0, 0, 0).await.unwrap();
        assert!(matches!(mgr.write(&rec(0, 1, n)).await.unwrap(), LogWriteMark::Success));
        for i in 1..4u64 {
            assert!(matches!(mgr.write(&rec(i, 1, 10)).await.unwrap(), LogWriteMark::Success));
        }
        mgr.flush_log().await.unwrap();
        assert_eq!(mgr.get_end_index(), 4);
    }
    let mgr = LogInnerManager::init(p.clone(), 0, 0, 0).await.unwrap();
    assert_eq!(mgr.get_end_index(), 4, "acknowledged entries lost on reopen");
}
