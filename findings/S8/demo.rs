// S8 (C09): TenantIndex::query_config_page with no tenant in the query (search over all tenants) applies the page offset
// inside EVERY tenant instead of once to the whole listing: with more than one tenant, pages after the first skip
// configurations (they appear on no page) although the reported total counts them.
// Runs against the real crate (appended as a test module of src/config/config_index.rs).
use super::*;

#[test]
fn s8_pages_of_an_all_tenant_listing_tile_the_listing() {
    let mut index = TenantIndex::new();
    for d in ["a1", "a2", "a3"] { index.insert_config(ConfigKey::new(d, "g", "ta")); }
    for d in ["b1", "b2", "b3", "b4", "b5"] { index.insert_config(ConfigKey::new(d, "g", "tb")); }
    let all = ConfigQueryParam { tenant: None, limit: 0xffff, ..ConfigQueryParam::default() };
    let (total, full) = index.query_config_page(&all);
    assert_eq!(total, 8);
    assert_eq!(full.len(), 8);
    let page_size = 4;
    let mut seen = vec![];
    let mut page_no = 0;
    loop {
        let q = ConfigQueryParam { tenant: None, limit: page_size, offset: page_no * page_size, ..ConfigQueryParam::default() };
        let (t, list) = index.query_config_page(&q);
        assert_eq!(t, 8, "total on page {}", page_no + 1);
        if list.is_empty() { break; }
        seen.extend(list);
        page_no += 1;
        assert!(page_no < 10);
    }
    assert_eq!(seen, full, "the pages of size {} must tile the full listing (each stored config exactly once)", page_size);
}
