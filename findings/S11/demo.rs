// S11 (C12): a PERSISTENT instance (ephemeral = false) registered over gRPC is recorded in the reverse map of its
// connection like an ephemeral one; when the connection ends, NamingActor::remove_client_instance replays the record and
// Service::remove_instance refuses a foreign client id only for EPHEMERAL instances — so the persistent instance is
// removed from the registry by the disconnect (and the Raft copy written at registration is not removed: the two diverge).
// Runs against the real crate (appended as a test module of src/naming/core.rs).
use super::*;

fn s11_instance(ip: &str, port: u32, ephemeral: bool, client_id: &Arc<String>) -> Instance {
    let mut instance = Instance::new(ip.to_owned(), port);
    instance.namespace_id = Arc::new("public".to_owned());
    instance.service_name = Arc::new("foo".to_owned());
    instance.group_name = Arc::new("DEFAULT_GROUP".to_owned());
    instance.cluster_name = "DEFAULT".to_owned();
    instance.healthy = true;
    instance.enabled = true;
    instance.weight = 1.0;
    instance.ephemeral = ephemeral;
    instance.from_grpc = true;              // what InstanceRequestHandler::convert_to_instance builds
    instance.client_id = client_id.clone(); // = connection id
    instance.init();
    instance
}

#[test]
fn s11_persistent_instance_registered_over_grpc_survives_the_end_of_the_connection() {
    let mut naming = NamingActor::new();
    let client = Arc::new("0_101".to_owned());
    let tag = InstanceUpdateTag { weight: false, metadata: true, enabled: false, ephemeral: false, from_update: false }; // as the gRPC handler builds it
    let eph = s11_instance("10.0.0.1", 8080, true, &client);
    let per = s11_instance("10.0.0.2", 8080, false, &client);
    let key = eph.get_service_key();
    let (eph_key, per_key) = (eph.get_short_key(), per.get_short_key());
    naming.update_instance(&key, eph, Some(tag.clone()), false, None);
    naming.update_instance(&key, per, Some(tag), false, None);
    assert!(!naming.get_instance(&key, &per_key).unwrap().ephemeral);
    assert_eq!(naming.get_instance_list(&key, "", false).len(), 2);

    naming.remove_client_instance(&client);   // the gRPC connection ends

    assert!(naming.get_instance(&key, &eph_key).is_none(), "the ephemeral instance of the closed connection must be removed");
    assert!(naming.get_instance(&key, &per_key).is_some(), "the persistent instance was removed by the end of the gRPC connection");
}
