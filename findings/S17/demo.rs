// S17 (C16): ApiCheckAuthMiddleware decides on the RAW request path whether a request needs a token
// (`(?i)/nacos/.*`, `(?i)/rnacos/v1/.*`), but actix routes on the path with percent-escapes of plain characters decoded:
// `/%6eacos/v1/cs/configs` is served by the config handlers and matches neither pattern, so with auth ON every data
// endpoint is open to anyone who writes one letter of the prefix as a percent-escape.
// Runs against the real crate (appended as a test module of src/openapi/middle/auth_middle.rs).
use super::*;
use crate::common::AppSysConfig;
use crate::starter::{build_share_data, config_factory};
use crate::web_config::app_config;
use actix_web::http::StatusCode;
use actix_web::test as atest;
use actix_web::{web::Data, App};

#[test]
fn s17_percent_encoded_prefix_needs_a_token_too() {
    let dir = tempfile::tempdir().unwrap();
    let mut cfg = AppSysConfig::init_from_env();
    cfg.local_db_dir = dir.path().join("nacos_db").to_string_lossy().to_string();
    cfg.openapi_enable_auth = true;
    cfg.raft_auto_init = false;
    cfg.metrics_enable = false;
    cfg.naming_instance_metadata_persistence_enable = false;
    let cfg = Arc::new(cfg);
    actix_rt::System::new().block_on(async move {
        let factory_data = config_factory(cfg.clone()).await.unwrap();
        let app_data = build_share_data(factory_data).unwrap();
        let app = atest::init_service(
            App::new()
                .app_data(Data::new(app_data.clone()))
                .app_data(Data::new(app_data.config_addr.clone()))
                .app_data(Data::new(app_data.naming_addr.clone()))
                .app_data(Data::new(app_data.bi_stream_manage.clone()))
                .wrap(ApiCheckAuth::new(app_data.clone()))
                .configure(app_config(cfg.as_ref().clone())),
        )
        .await;
        for path in ["/nacos/v1/cs/configs", "/%6eacos/v1/cs/configs", "/nacos/v1/cs/config%73", "/%6Eacos/v1/ns/instance/list"] {
            let uri = format!("{}?dataId=d&group=g&tenant=&serviceName=s", path);
            let resp = atest::call_service(&app, atest::TestRequest::get().uri(&uri).to_request()).await;
            let status = resp.status();
            let body = String::from_utf8_lossy(&atest::read_body(resp).await).to_string();
            assert!(status == StatusCode::FORBIDDEN && body.contains("unknown user!"), "GET {} without a token answered {} {:?} instead of 403", uri, status, body);
        }
    });
}
