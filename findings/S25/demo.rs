// S25 (C01): a snapshot file is opened WITHOUT truncation (SnapshotWriter::init: create(true), write from offset 0).  When a file of
// the same name is already there and is LONGER than the new snapshot — the leftover of a compaction attempt that was interrupted
// after the file was written and before the catalogue was saved (the next attempt gets the same id) — its tail stays behind the new
// snapshot's records, and a restart loads it: deleted data reappears.
// History: set a, set b; a compaction attempt writes snapshot_1 = [header][sequence][a][b] (the order in which the components'
// records reach the writer is not fixed; this is the one in which b is last) and the process dies before the catalogue is saved;
// restart; remove b; compaction (id 1 again) writes [header][sequence][a] over the first bytes of the leftover; restart: the node
// must NOT serve b.  The leftover file is assembled from real frames: the image the second compaction produces on a twin node, followed
// by b's record frame cut out of a real snapshot that holds b.
use crate::common::protobuf_utils::MessageBufReader as S25BufReader;
use super::*;

use crate::cache::core::DirectCacheManager;
use crate::config::core::{ConfigActor, ConfigCmd, ConfigKey, ConfigResult};
use crate::mcp::core::McpManager;
use crate::namespace::model::{NamespaceParam, NamespaceQueryReq, NamespaceQueryResult, NamespaceRaftReq};
use crate::namespace::NamespaceActor;
use crate::naming::core::NamingActor;
use crate::raft::db::table::TableManager;
use crate::raft::filestore::raftlog::RaftLogManagerRequest;
use crate::raft::store::ClientRequest;
use crate::sequence::core::SequenceDbManager;
use async_raft::raft::{Entry, EntryNormal};
use std::time::Duration;

struct S25Node {
    index_manager: Addr<RaftIndexManager>,
    log_manager: Addr<RaftLogManager>,
    snapshot_manager: Addr<RaftSnapshotManager>,
    data_wrap: Arc<RaftDataHandler>,
}

fn s25_start_node(base_path: Arc<String>) -> S25Node {
    let index_manager = RaftIndexManager::new(base_path.clone()).start();
    let log_manager = RaftLogManager::new(base_path.clone(), Some(index_manager.clone())).start();
    let snapshot_manager = RaftSnapshotManager::new(base_path.clone(), Some(index_manager.clone())).start();
    let data_wrap = Arc::new(RaftDataHandler {
        config: ConfigActor::new().start(),
        table: TableManager::new().start(),
        namespace: NamespaceActor::new(1).start(),
        sequence_db: SequenceDbManager::new().start(),
        mcp_manager: McpManager::new().start(),
        naming_actor: NamingActor::new().start(),
        direct_cache_manager: DirectCacheManager::new().start(),
    });
    S25Node { index_manager, log_manager, snapshot_manager, data_wrap }
}

fn s25_apply_manager(node: &S25Node) -> Addr<StateApplyManager> {
    let (index_manager, snapshot_manager, log_manager, data_wrap) =
        (node.index_manager.clone(), node.snapshot_manager.clone(), node.log_manager.clone(), node.data_wrap.clone());
    StateApplyManager::create(move |ctx| {
        let mut act = StateApplyManager::new();
        act.index_manager = Some(index_manager);
        act.snapshot_manager = Some(snapshot_manager);
        act.log_manager = Some(log_manager);
        act.data_wrap = Some(data_wrap);
        act.init(ctx);
        act
    })
}

fn s25_config_set(data_id: &str, value: &str, history_id: u64) -> ClientRequest {
    ClientRequest::ConfigSet { key: format!("{}\x02DEFAULT_GROUP\x02", data_id), value: Arc::new(value.to_owned()), config_type: None, desc: None, history_id,
        history_table_id: Some(history_id), op_time: 1_700_000_000_000 + history_id as i64, op_user: None }
}

async fn s25_commit(node: &S25Node, index: u64, req: ClientRequest) {
    let entry = Entry { term: 1, index, payload: EntryPayload::Normal(EntryNormal { data: req.clone() }) };
    let record = StoreUtils::entry_to_record(&entry).unwrap();
    let (tx, rx) = tokio::sync::oneshot::channel();
    node.log_manager.send(RaftLogManagerRequest::Write { record, sender: tx }).await.unwrap().unwrap();
    rx.await.unwrap().unwrap();
    StateApplyManager::async_apply_request_to_state_machine(ApplyRequestDto::new(index, req), &node.data_wrap, node.index_manager.clone()).await.unwrap();
}

async fn s25_observe(node: &S25Node) -> String {
    let mut out = String::new();
    for id in ["a", "b"] {
        match node.data_wrap.config.send(ConfigCmd::GET(ConfigKey::new(id, "DEFAULT_GROUP", ""))).await.unwrap().unwrap() {
            ConfigResult::Data { value, md5, .. } => out.push_str(&format!("cfg[{}]=({},{}) ", id, value, md5)),
            _ => out.push_str(&format!("cfg[{}]=none ", id)),
        }
    }
    if let NamespaceQueryResult::List(list) = node.data_wrap.namespace.send(NamespaceQueryReq::List).await.unwrap().unwrap() {
        let mut l: Vec<String> = list.iter().map(|x| format!("{}={}", x.namespace_id, x.namespace_name)).collect();
        l.sort();
        out.push_str(&format!("ns={:?} ", l));
    }
    out
}


/// the length-prefixed frames of a snapshot image
fn s25_frames(bytes: &[u8]) -> Vec<Vec<u8>> {
    let mut r = S25BufReader::new();
    r.append_next_buf(bytes);
    let mut out = vec![];
    while let Some(v) = r.next_message_vec() { out.push(v.to_vec()); }
    out
}

async fn s25_history(node: &S25Node, with_removal: bool) {
    s25_commit(node, 1, s25_config_set("a", "value-a", 1)).await;
    s25_commit(node, 2, s25_config_set("b", "value-b", 2)).await;
    if with_removal { s25_commit(node, 3, ClientRequest::ConfigRemove { key: format!("{}\x02DEFAULT_GROUP\x02", "b") }).await; }
}

#[test]
fn s25_leftover_of_an_interrupted_compaction_does_not_resurrect_removed_data() {
    let base = std::env::temp_dir().join(format!("vx_s25_{}", std::process::id()));
    let _ = std::fs::remove_dir_all(&base);
    let (dir_a, dir_t, dir_b, dir_c) = (base.join("attempt"), base.join("twin"), base.join("node"), base.join("node-restarted"));
    for d in [&dir_a, &dir_t, &dir_b, &dir_c] { std::fs::create_dir_all(d).unwrap(); }
    let sys = actix::System::new();
    let (before, after) = sys.block_on(async {
        let mut addrs = std::collections::HashMap::new();
        addrs.insert(1u64, Arc::new("127.0.0.1:9848".to_owned()));
        // ---- a real snapshot that holds b: b's record frame is cut out of it
        let attempt = s25_start_node(Arc::new(dir_a.to_string_lossy().into_owned()));
        attempt.index_manager.send(RaftIndexRequest::SaveMember { member: vec![1], member_after_consensus: None, node_addr: Some(addrs.clone()) }).await.unwrap().unwrap();
        s25_history(&attempt, false).await;
        let (_h, p1, _id) = StateApplyManager::do_build_snapshot(attempt.log_manager.clone(), attempt.index_manager.clone(),
            attempt.snapshot_manager.clone(), attempt.data_wrap.clone(), 2).await.expect("compaction with b");
        tokio::time::sleep(Duration::from_millis(300)).await;
        let with_b = std::fs::read(p1.as_str()).unwrap();
        let b_frame = s25_frames(&with_b).into_iter().find(|f| f.windows(1 + "DEFAULT_GROUP".len()).any(|w| w == b"b\x02DEFAULT_GROU")).expect("frame of config b");
        // ---- the image the node's later compaction produces (twin node, same history)
        let twin = s25_start_node(Arc::new(dir_t.to_string_lossy().into_owned()));
        twin.index_manager.send(RaftIndexRequest::SaveMember { member: vec![1], member_after_consensus: None, node_addr: Some(addrs.clone()) }).await.unwrap().unwrap();
        s25_history(&twin, true).await;
        let (_h, p2, _id) = StateApplyManager::do_build_snapshot(twin.log_manager.clone(), twin.index_manager.clone(),
            twin.snapshot_manager.clone(), twin.data_wrap.clone(), 3).await.expect("compaction without b");
        tokio::time::sleep(Duration::from_millis(300)).await;
        let without_b = std::fs::read(p2.as_str()).unwrap();
        let leftover_name = std::path::Path::new(p2.as_str()).file_name().unwrap().to_owned();
        // the file an interrupted attempt at [a, b] leaves when b reached the writer last: same bytes up to b's frame
        let mut leftover = without_b.clone();
        leftover.extend_from_slice(&(b_frame.len() as u8).to_le_bytes()[..0]);
        leftover.extend_from_slice(&b_frame);

        // ---- the node: the leftover is on disk, the catalogue knows no snapshot
        let node = s25_start_node(Arc::new(dir_b.to_string_lossy().into_owned()));
        node.index_manager.send(RaftIndexRequest::SaveMember { member: vec![1], member_after_consensus: None, node_addr: Some(addrs.clone()) }).await.unwrap().unwrap();
        std::fs::write(dir_b.join(&leftover_name), &leftover).unwrap();
        s25_history(&node, true).await;
        let (_h2, new_path, _id2) = StateApplyManager::do_build_snapshot(node.log_manager.clone(), node.index_manager.clone(),
            node.snapshot_manager.clone(), node.data_wrap.clone(), 3).await.expect("second compaction");
        assert_eq!(std::path::Path::new(new_path.as_str()).file_name().unwrap(), leftover_name.as_os_str(), "the demo expects the compaction to reuse the id of the interrupted attempt");
        let before = s25_observe(&node).await;
        tokio::time::sleep(Duration::from_millis(1500)).await;
        println!("S25 leftover {} bytes; snapshot file after the node's compaction {} bytes; a clean image of that state {} bytes",
            leftover.len(), std::fs::metadata(new_path.as_str()).unwrap().len(), without_b.len());
        for item in std::fs::read_dir(&dir_b).unwrap() {
            let item = item.unwrap();
            if item.file_name().to_string_lossy() == "db_lock" { continue; }
            if item.path().is_file() { std::fs::copy(item.path(), dir_c.join(item.file_name())).unwrap(); }
        }
        let restarted = s25_start_node(Arc::new(dir_c.to_string_lossy().into_owned()));
        let apply = s25_apply_manager(&restarted);
        apply.send(StateApplyRequest::GetLastAppliedLog).await.unwrap().unwrap();
        tokio::time::sleep(Duration::from_millis(300)).await;
        let after = s25_observe(&restarted).await;
        (before, after)
    });
    let _ = std::fs::remove_dir_all(&base);
    println!("S25 served before the restart: {}", before);
    println!("S25 served after the restart:  {}", after);
    assert_eq!(after, before, "a restart serves something else than the node did before it stopped (leftover snapshot file of an interrupted compaction)");
}
