// S6 (C19): SeqGroup::apply_range refills the exhausted buffer that is still "in use" while the other
// buffer holds smaller ids; those are skipped and later issued after larger ones.
// Protocol followed = SequenceManager (src/sequence/mod.rs): apply_range only when need_apply(),
// ranges handed out by Raft are increasing and disjoint.  Runs against the real src/sequence/model.rs.
use super::*;

#[test]
fn s6_ids_never_go_backwards() {
    // the schedule that fails on the unrepaired code first, then every schedule of 12 refills
    run_schedule(&[true, true, true, true, true, false, true, true, true, true, true, true]);
    for bits in 0..4096u32 {
        let sch: Vec<bool> = (0..12).map(|i| bits & (1 << i) != 0).collect();
        run_schedule(&sch);
    }
}

fn run_schedule(early: &[bool]) {
    let mut g = SeqGroup::new(3);
    let mut next_start = 1u64;
    let mut issued: Vec<u64> = vec![];
    // first request: nothing cached -> UseFromRange
    assert!(g.next_id().is_none());
    g.apply_range(next_start, 3);
    next_start += 3;
    // refill schedule: true = the FillRange answer arrives before the next request, false = after it
    let mut pending = false;
    for step in 0..12 {
        let v = match g.next_id() {
            Some(v) => v,
            None => {
                // UseFromRange path
                g.apply_range(next_start, 3);
                next_start += 3;
                g.next_id().unwrap()
            }
        };
        if let Some(last) = issued.last() {
            assert!(v > *last, "id {} issued after {} (issued so far {:?}, schedule {:?})", v, last, issued, early);
        }
        issued.push(v);
        if pending {
            // late answer of an earlier FillRange
            g.apply_range(next_start, 3);
            next_start += 3;
            g.clear_apply_mark();
            pending = false;
        }
        if g.need_apply() {
            g.mark_apply();
            if early[step] {
                g.apply_range(next_start, 3);
                next_start += 3;
                g.clear_apply_mark();
            } else {
                pending = true;
            }
        }
    }
}
