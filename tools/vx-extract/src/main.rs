//! vx-extract: dump byte-exact spans of every item / fn / loop / return of a Rust source
//! file as JSON.  The Python side (lib/assemble.py) slices the *unchanged* source bytes
//! with these spans and splices contracts at structural anchors only.
//!
//! usage: vx-extract <file.rs>   (JSON on stdout)
use proc_macro2::Span;
use serde_json::{json, Value};
use syn::spanned::Spanned;
use syn::visit::Visit;

struct Src {
    line_starts: Vec<usize>,
    text: String,
}
impl Src {
    fn new(text: String) -> Self {
        let mut line_starts = vec![0usize];
        for (i, b) in text.bytes().enumerate() {
            if b == b'\n' {
                line_starts.push(i + 1);
            }
        }
        Src { line_starts, text }
    }
    fn off(&self, line: usize, col: usize) -> usize {
        // line 1-based, col 0-based in chars
        let ls = self.line_starts[line - 1];
        let rest = &self.text[ls..];
        let mut n = 0usize;
        for (ci, (bi, _)) in rest.char_indices().enumerate() {
            if ci == col {
                return ls + bi;
            }
            n = bi;
        }
        let _ = n;
        // col at end of line / text
        let mut cnt = 0usize;
        for (bi, ch) in rest.char_indices() {
            if cnt == col {
                return ls + bi;
            }
            cnt += 1;
            let _ = ch;
        }
        ls + rest.len()
    }
    fn span(&self, s: Span) -> (usize, usize) {
        let a = s.start();
        let b = s.end();
        (self.off(a.line, a.column), self.off(b.line, b.column))
    }
    fn jspan(&self, s: Span) -> Value {
        let (a, b) = self.span(s);
        json!({"start": a, "end": b})
    }
}

struct FnInfo<'a> {
    src: &'a Src,
    loops: Vec<Value>,
    returns: Vec<Value>,
    calls: Vec<Value>,
    closures: Vec<Value>,
    macros: Vec<Value>,
    awaits: usize,
    await_spans: Vec<Value>,
    depth_closure: usize,
    stmt_stack: Vec<(usize, usize)>,
    /// spans of the closures / async blocks that enclose the current node (outermost first)
    encl: Vec<(usize, usize)>,
    /// T20: `async move {..}.into_actor(self)[.map(|..| ..)]*.wait(ctx)` chains
    chains: Vec<Value>,
}

fn block_has_continue(b: &syn::Block) -> bool {
    struct C(bool);
    impl<'ast> Visit<'ast> for C {
        fn visit_expr_continue(&mut self, _: &'ast syn::ExprContinue) {
            self.0 = true;
        }
        // do not descend into nested loops: a `continue` there belongs to them
        fn visit_expr_for_loop(&mut self, _: &'ast syn::ExprForLoop) {}
        fn visit_expr_while(&mut self, _: &'ast syn::ExprWhile) {}
        fn visit_expr_loop(&mut self, _: &'ast syn::ExprLoop) {}
        fn visit_expr_closure(&mut self, _: &'ast syn::ExprClosure) {}
        fn visit_item(&mut self, _: &'ast syn::Item) {}
    }
    let mut c = C(false);
    c.visit_block(b);
    c.0
}

impl<'a> FnInfo<'a> {
    fn encl_json(&self) -> Value {
        Value::Array(self.encl.iter().map(|(a, b)| json!([a, b])).collect())
    }
    /// T20: recognise `ASYNC_BLOCK.into_actor(self)[.map(CLOSURE)]*.wait(ARG)` / `.spawn(ARG)`
    fn actor_chain(&self, e: &syn::ExprMethodCall) -> Option<Value> {
        let fin = e.method.to_string();
        if fin != "wait" && fin != "spawn" {
            return None;
        }
        if e.args.len() != 1 {
            return None;
        }
        let mut maps: Vec<Value> = vec![];
        let mut cur: &syn::Expr = &e.receiver;
        loop {
            match cur {
                syn::Expr::MethodCall(m) if m.method == "map" && m.args.len() == 1 => {
                    if let syn::Expr::Closure(c) = &m.args[0] {
                        let params: Vec<Value> = c.inputs.iter().map(|p| {
                            let (a, b) = self.src.span(p.span());
                            json!({"start": a, "end": b, "text": &self.src.text[a..b]})
                        }).collect();
                        let (cs, ce) = self.src.span(c.span());
                        let (bs, be) = self.src.span(c.body.span());
                        maps.push(json!({"start": cs, "end": ce, "params": params, "body": {"start": bs, "end": be},
                            "is_move": c.capture.is_some()}));
                        cur = &m.receiver;
                    } else {
                        return None;
                    }
                }
                syn::Expr::MethodCall(m) if m.method == "into_actor" && m.args.len() == 1 => {
                    let (as_, ae) = self.src.span(m.args[0].span());
                    if &self.src.text[as_..ae] != "self" {
                        return None;
                    }
                    if let syn::Expr::Async(ab) = &*m.receiver {
                        let (s, t) = self.src.span(ab.span());
                        let (bo, bc) = self.src.span(ab.block.span());
                        maps.reverse();
                        let (a, b) = self.src.span(e.span());
                        let (ws, we) = self.src.span(e.args[0].span());
                        // every identifier token of the block (macro arguments included): a superset of what it captures
                        let mut idents: Vec<String> = vec![];
                        fn walk(ts: proc_macro2::TokenStream, out: &mut Vec<String>) {
                            for tt in ts {
                                match tt {
                                    proc_macro2::TokenTree::Ident(i) => { let s = i.to_string(); if !out.contains(&s) { out.push(s); } }
                                    proc_macro2::TokenTree::Group(g) => walk(g.stream(), out),
                                    _ => {}
                                }
                            }
                        }
                        if let Ok(ts) = self.src.text[bo..bc].parse::<proc_macro2::TokenStream>() { walk(ts, &mut idents); }
                        let btail = match ab.block.stmts.last() {
                            Some(syn::Stmt::Expr(x, None)) => self.src.jspan(x.span()),
                            _ => Value::Null,
                        };
                        return Some(json!({"start": a, "end": b, "stmt": self.cur_stmt(), "final": fin, "block_tail": btail,
                            "final_arg": &self.src.text[ws..we],
                            "async_block": {"start": s, "end": t, "body_open": bo, "body_close": bc - 1, "is_move": ab.capture.is_some()},
                            "maps": maps, "encl": self.encl_json(), "idents": idents}));
                    }
                    return None;
                }
                _ => return None,
            }
        }
    }
    fn cur_stmt(&self) -> Value {
        match self.stmt_stack.last() {
            Some((a, b)) => json!({"start": a, "end": b}),
            None => Value::Null,
        }
    }
}

impl<'a, 'ast> Visit<'ast> for FnInfo<'a> {
    fn visit_stmt(&mut self, st: &'ast syn::Stmt) {
        let sp = self.src.span(st.span());
        self.stmt_stack.push(sp);
        syn::visit::visit_stmt(self, st);
        self.stmt_stack.pop();
    }
    fn visit_item(&mut self, _: &'ast syn::Item) {
        // nested items are not part of this fn's control flow
    }
    fn visit_expr_closure(&mut self, c: &'ast syn::ExprClosure) {
        let (a, b) = self.src.span(c.span());
        self.closures.push(json!({"start": a, "end": b, "is_async": c.asyncness.is_some()}));
        self.depth_closure += 1;
        self.encl.push((a, b));
        syn::visit::visit_expr_closure(self, c);
        self.encl.pop();
        self.depth_closure -= 1;
    }
    fn visit_expr_async(&mut self, c: &'ast syn::ExprAsync) {
        let (a, b) = self.src.span(c.span());
        self.closures.push(json!({"start": a, "end": b, "is_async_block": true}));
        self.depth_closure += 1;
        self.encl.push((a, b));
        syn::visit::visit_expr_async(self, c);
        self.encl.pop();
        self.depth_closure -= 1;
    }
    fn visit_expr_await(&mut self, e: &'ast syn::ExprAwait) {
        self.awaits += 1;
        // T17 (reply log): `X.send(M).await` — the span of the await and of the call it awaits
        let (a, b) = self.src.span(e.span());
        let (ba, bb) = self.src.span(e.base.span());
        self.await_spans.push(json!({"start": a, "end": b, "base": {"start": ba, "end": bb}}));
        syn::visit::visit_expr_await(self, e);
    }
    fn visit_macro(&mut self, m: &'ast syn::Macro) {
        let (a, b) = self.src.span(m.span());
        let path = m
            .path
            .segments
            .iter()
            .map(|s| s.ident.to_string())
            .collect::<Vec<_>>()
            .join("::");
        self.macros.push(json!({"start": a, "end": b, "path": path}));
        // try to look inside macro args for loops?  no: macro bodies are opaque tokens
    }
    fn visit_expr_for_loop(&mut self, e: &'ast syn::ExprForLoop) {
        let (a, b) = self.src.span(e.span());
        let (bo, bc) = self.src.span(e.body.span());
        let ord = self.loops.len() + 1;
        self.loops.push(json!({
            "ord": ord, "kind": "for", "start": a, "end": b, "stmt": self.cur_stmt(),
            "body_open": bo, "body_close": bc - 1,
            "pat": self.src.jspan(e.pat.span()),
            "expr": self.src.jspan(e.expr.span()),
            "for_token": self.src.jspan(e.for_token.span()),
            "label": e.label.as_ref().map(|l| l.name.ident.to_string()),
            "has_continue": block_has_continue(&e.body),
            "in_closure": self.depth_closure > 0, "encl": self.encl_json(),
        }));
        syn::visit::visit_expr_for_loop(self, e);
    }
    fn visit_expr_while(&mut self, e: &'ast syn::ExprWhile) {
        let (a, b) = self.src.span(e.span());
        let (bo, bc) = self.src.span(e.body.span());
        let ord = self.loops.len() + 1;
        self.loops.push(json!({
            "ord": ord, "kind": "while", "start": a, "end": b, "stmt": self.cur_stmt(),
            "body_open": bo, "body_close": bc - 1,
            "cond": self.src.jspan(e.cond.span()),
            "label": e.label.as_ref().map(|l| l.name.ident.to_string()),
            "has_continue": block_has_continue(&e.body),
            "in_closure": self.depth_closure > 0, "encl": self.encl_json(),
        }));
        syn::visit::visit_expr_while(self, e);
    }
    fn visit_expr_loop(&mut self, e: &'ast syn::ExprLoop) {
        let (a, b) = self.src.span(e.span());
        let (bo, bc) = self.src.span(e.body.span());
        let ord = self.loops.len() + 1;
        self.loops.push(json!({
            "ord": ord, "kind": "loop", "start": a, "end": b, "stmt": self.cur_stmt(),
            "body_open": bo, "body_close": bc - 1,
            "label": e.label.as_ref().map(|l| l.name.ident.to_string()),
            "has_continue": block_has_continue(&e.body),
            "in_closure": self.depth_closure > 0, "encl": self.encl_json(),
        }));
        syn::visit::visit_expr_loop(self, e);
    }
    fn visit_expr_method_call(&mut self, e: &'ast syn::ExprMethodCall) {
        let (a, b) = self.src.span(e.span());
        let args: Vec<Value> = e.args.iter().map(|x| { let (s, t) = self.src.span(x.span()); json!({"start": s, "end": t}) }).collect();
        let recv = { let (rs, rt) = self.src.span(e.receiver.span()); json!({"start": rs, "end": rt}) };
        self.calls.push(json!({"name": e.method.to_string(), "start": a, "end": b, "stmt": self.cur_stmt(),
            "in_closure": self.depth_closure > 0, "encl": self.encl_json(), "args": args, "method": true,
            "recv": recv}));
        if let Some(ch) = self.actor_chain(e) {
            self.chains.push(ch);
        }
        syn::visit::visit_expr_method_call(self, e);
    }
    fn visit_expr_call(&mut self, e: &'ast syn::ExprCall) {
        if let syn::Expr::Path(p) = &*e.func {
            if let Some(seg) = p.path.segments.last() {
                let (a, b) = self.src.span(e.span());
                let args: Vec<Value> = e.args.iter().map(|x| { let (s, t) = self.src.span(x.span()); json!({"start": s, "end": t}) }).collect();
                self.calls.push(json!({"name": seg.ident.to_string(), "start": a, "end": b, "stmt": self.cur_stmt(),
                    "in_closure": self.depth_closure > 0, "encl": self.encl_json(), "args": args, "method": false}));
            }
        }
        syn::visit::visit_expr_call(self, e);
    }
    fn visit_expr_return(&mut self, e: &'ast syn::ExprReturn) {
        let (a, b) = self.src.span(e.span());
        self.returns.push(json!({"ord": self.returns.len() + 1, "start": a, "end": b, "stmt": self.cur_stmt(),
            "in_closure": self.depth_closure > 0, "encl": self.encl_json()}));
        syn::visit::visit_expr_return(self, e);
    }
}

/// T20 (A-WAIT order): spans of the statements / expressions of a function body behind which NOTHING runs in the same handler:
/// tail position (through blocks, if / else, match arms), a statement directly followed by `return`, and a statement followed only
/// by a constructor-only tail expression (`Ok(Resp::None)`).  Closure bodies are roots of their own.
fn is_pure_ctor(e: &syn::Expr) -> bool {
    match e {
        syn::Expr::Path(_) | syn::Expr::Lit(_) => true,
        syn::Expr::Paren(p) => is_pure_ctor(&p.expr),
        syn::Expr::Tuple(t) => t.elems.iter().all(is_pure_ctor),
        // `self.path.clone()`: a copy of a field reads nothing the waited future writes before the handler's answer is built
        syn::Expr::MethodCall(m) => m.method == "clone" && m.args.is_empty() && matches!(&*m.receiver, syn::Expr::Field(_) | syn::Expr::Path(_)),
        syn::Expr::Call(c) => {
            let ok = if let syn::Expr::Path(p) = &*c.func {
                // `Ok` / `Err` / `Some`, or an enum variant / tuple struct constructor (`Resp::Path(..)`: upper-case last segment)
                p.path.segments.last().map(|s| { let n = s.ident.to_string(); n == "Ok" || n == "Err" || n == "Some"
                    || (p.path.segments.len() >= 2 && n.chars().next().map(|c| c.is_uppercase()).unwrap_or(false)) }).unwrap_or(false)
            } else { false };
            ok && c.args.iter().all(is_pure_ctor)
        }
        _ => false,
    }
}
fn is_return(st: &syn::Stmt) -> bool {
    match st {
        syn::Stmt::Expr(syn::Expr::Return(r), _) => r.expr.as_ref().map(|e| is_pure_ctor(e)).unwrap_or(true),
        _ => false,
    }
}
fn tail_of_expr(src: &Src, e: &syn::Expr, out: &mut Vec<(usize, usize)>) {
    match e {
        syn::Expr::If(i) => {
            tail_of_block(src, &i.then_branch, out);
            if let Some((_, el)) = &i.else_branch { tail_of_expr(src, el, out); }
        }
        syn::Expr::Match(m) => { for a in &m.arms { tail_of_expr(src, &a.body, out); } }
        syn::Expr::Block(b) => tail_of_block(src, &b.block, out),
        syn::Expr::Paren(p) => tail_of_expr(src, &p.expr, out),
        _ => out.push(src.span(e.span())),
    }
}
fn tail_of_block(src: &Src, b: &syn::Block, out: &mut Vec<(usize, usize)>) {
    let n = b.stmts.len();
    if n == 0 { return; }
    let mut last = n - 1;
    // a constructor-only tail expression does nothing: the statement before it is the last one that runs
    if let syn::Stmt::Expr(e, None) = &b.stmts[last] {
        if is_pure_ctor(e) && last > 0 { last -= 1; }
    }
    match &b.stmts[last] {
        syn::Stmt::Expr(e, _) => tail_of_expr(src, e, out),
        st => out.push(src.span(st.span())),
    }
}
struct ReturnRule<'a> { src: &'a Src, out: Vec<(usize, usize)> }
impl<'a, 'ast> Visit<'ast> for ReturnRule<'a> {
    fn visit_block(&mut self, b: &'ast syn::Block) {
        for w in b.stmts.windows(2) {
            if is_return(&w[1]) {
                match &w[0] {
                    syn::Stmt::Expr(e, _) => tail_of_expr(self.src, e, &mut self.out),
                    st => self.out.push(self.src.span(st.span())),
                }
            }
        }
        syn::visit::visit_block(self, b);
    }
    fn visit_expr_closure(&mut self, c: &'ast syn::ExprClosure) {
        // a closure body is a handler fragment of its own (the `map` closure of an actor future chain)
        match &*c.body {
            syn::Expr::Block(b) => tail_of_block(self.src, &b.block, &mut self.out),
            e => tail_of_expr(self.src, e, &mut self.out),
        }
        syn::visit::visit_expr_closure(self, c);
    }
    fn visit_expr_return(&mut self, r: &'ast syn::ExprReturn) {
        // `return f(..)`: the returned expression is the last thing this handler does
        if let Some(e) = &r.expr { tail_of_expr(self.src, e, &mut self.out); }
        syn::visit::visit_expr_return(self, r);
    }
    fn visit_item(&mut self, _: &'ast syn::Item) {}
}
fn tail_spans(src: &Src, b: &syn::Block) -> Value {
    let mut out = vec![];
    tail_of_block(src, b, &mut out);
    let mut rr = ReturnRule { src, out: vec![] };
    rr.visit_block(b);
    out.extend(rr.out);
    Value::Array(out.iter().map(|(a, b)| json!([a, b])).collect())
}

fn attrs_json(src: &Src, attrs: &[syn::Attribute]) -> Value {
    let v: Vec<Value> = attrs
        .iter()
        .map(|a| {
            let (s, e) = src.span(a.span());
            let path = a
                .path()
                .segments
                .iter()
                .map(|s| s.ident.to_string())
                .collect::<Vec<_>>()
                .join("::");
            json!({"start": s, "end": e, "path": path, "text": &src.text[s..e],
                   "inner": matches!(a.style, syn::AttrStyle::Inner(_))})
        })
        .collect();
    Value::Array(v)
}

fn sig_json(src: &Src, sig: &syn::Signature, block: Option<&syn::Block>) -> Value {
    let mut inputs = vec![];
    for a in sig.inputs.iter() {
        match a {
            syn::FnArg::Receiver(r) => {
                let (s, e) = src.span(r.span());
                inputs.push(json!({"name": "self", "start": s, "end": e,
                    "mutable_ref": r.reference.is_some() && r.mutability.is_some(),
                    "text": &src.text[s..e]}));
            }
            syn::FnArg::Typed(t) => {
                let (s, e) = src.span(t.span());
                let (ps, pe) = src.span(t.pat.span());
                let (ts, te) = src.span(t.ty.span());
                inputs.push(json!({"name": &src.text[ps..pe], "start": s, "end": e,
                    "ty": &src.text[ts..te], "text": &src.text[s..e]}));
            }
        }
    }
    let ret = match &sig.output {
        syn::ReturnType::Default => Value::Null,
        syn::ReturnType::Type(arrow, ty) => {
            let (s, e) = src.span(ty.span());
            let (as_, _) = src.span(arrow.span());
            json!({"start": s, "end": e, "arrow": as_, "text": &src.text[s..e]})
        }
    };
    let (ss, se) = src.span(sig.span());
    let gen_text = { let (a, b) = src.span(sig.generics.span()); src.text[a..b].to_string() };
    let mut j = json!({
        "name": sig.ident.to_string(),
        "sig_start": ss, "sig_end": se,
        "is_async": sig.asyncness.is_some(),
        "inputs": inputs,
        "ret": ret,
        "generics": { "text": gen_text },
        "where": sig.generics.where_clause.as_ref().map(|w| src.jspan(w.span())),
    });
    if let Some(b) = block {
        let (bo, bc) = src.span(b.span());
        let mut fi = FnInfo {
            src,
            loops: vec![],
            returns: vec![],
            calls: vec![],
            closures: vec![],
            macros: vec![],
            awaits: 0,
            await_spans: vec![],
            depth_closure: 0,
            stmt_stack: vec![],
            encl: vec![],
            chains: vec![],
        };
        fi.visit_block(b);
        // tail expression: last stmt is Expr without semicolon
        let tail = match b.stmts.last() {
            Some(syn::Stmt::Expr(e, None)) => src.jspan(e.span()),
            _ => Value::Null,
        };
        let first_stmt = match b.stmts.first() {
            Some(s) => json!(src.span(s.span()).0),
            None => Value::Null,
        };
        let stmts: Vec<Value> = b.stmts.iter().map(|s| src.jspan(s.span())).collect();
        let o = j.as_object_mut().unwrap();
        o.insert("body_open".into(), json!(bo));
        o.insert("body_close".into(), json!(bc - 1));
        o.insert("loops".into(), Value::Array(fi.loops));
        o.insert("returns".into(), Value::Array(fi.returns));
        o.insert("calls".into(), Value::Array(fi.calls));
        o.insert("closures".into(), Value::Array(fi.closures));
        fi.chains.sort_by_key(|c| c["start"].as_u64().unwrap_or(0));
        o.insert("chains".into(), Value::Array(fi.chains));
        o.insert("macros".into(), Value::Array(fi.macros));
        o.insert("awaits".into(), json!(fi.awaits));
        o.insert("await_spans".into(), Value::Array(fi.await_spans));
        o.insert("tail".into(), tail);
        o.insert("tail_spans".into(), tail_spans(src, b));
        o.insert("first_stmt".into(), first_stmt);
        o.insert("stmts".into(), Value::Array(stmts));
    }
    j
}

fn type_text(src: &Src, t: &syn::Type) -> String {
    let (a, b) = src.span(t.span());
    src.text[a..b].to_string()
}

fn fields_json(src: &Src, f: &syn::Fields) -> Value {
    let v: Vec<Value> = f
        .iter()
        .enumerate()
        .map(|(i, fld)| {
            let (s, e) = src.span(fld.span());
            json!({
                "name": fld.ident.as_ref().map(|i| i.to_string()).unwrap_or(format!("{}", i)),
                "ty": type_text(src, &fld.ty),
                "start": s, "end": e,
                "attrs": attrs_json(src, &fld.attrs),
            })
        })
        .collect();
    Value::Array(v)
}

fn walk_items(src: &Src, prefix: &str, items: &[syn::Item], out: &mut Vec<Value>) {
    for it in items {
        let (s, e) = src.span(it.span());
        let p = |n: &str| {
            if prefix.is_empty() {
                n.to_string()
            } else {
                format!("{}::{}", prefix, n)
            }
        };
        match it {
            syn::Item::Fn(f) => {
                out.push(json!({"kind": "fn", "path": p(&f.sig.ident.to_string()),
                    "start": s, "end": e, "attrs": attrs_json(src, &f.attrs),
                    "vis": src.jspan(f.vis.span()),
                    "fn": sig_json(src, &f.sig, Some(&f.block))}));
            }
            syn::Item::Struct(st) => {
                let gen_text = { let (a, b) = src.span(st.generics.span()); src.text[a..b].to_string() };
                out.push(json!({"kind": "struct", "path": p(&st.ident.to_string()),
                    "start": s, "end": e, "attrs": attrs_json(src, &st.attrs),
                    "generics": gen_text,
                    "fields": fields_json(src, &st.fields),
                    "named": matches!(st.fields, syn::Fields::Named(_)) }));
            }
            syn::Item::Enum(en) => {
                let vars: Vec<Value> = en
                    .variants
                    .iter()
                    .map(|v| {
                        let (a, b) = src.span(v.span());
                        json!({"name": v.ident.to_string(), "start": a, "end": b,
                           "attrs": attrs_json(src, &v.attrs),
                           "fields": fields_json(src, &v.fields)})
                    })
                    .collect();
                out.push(json!({"kind": "enum", "path": p(&en.ident.to_string()),
                    "start": s, "end": e, "attrs": attrs_json(src, &en.attrs),
                    "variants": vars}));
            }
            syn::Item::Const(c) => {
                out.push(json!({"kind": "const", "path": p(&c.ident.to_string()),
                    "start": s, "end": e, "attrs": attrs_json(src, &c.attrs),
                    "ty": type_text(src, &c.ty),
                    "expr": src.jspan(c.expr.span()),
                    "vis": src.jspan(c.vis.span())}));
            }
            syn::Item::Static(c) => {
                out.push(json!({"kind": "static", "path": p(&c.ident.to_string()),
                    "start": s, "end": e, "attrs": attrs_json(src, &c.attrs)}));
            }
            syn::Item::Type(t) => {
                out.push(json!({"kind": "type", "path": p(&t.ident.to_string()),
                    "start": s, "end": e, "attrs": attrs_json(src, &t.attrs)}));
            }
            syn::Item::Trait(t) => {
                out.push(json!({"kind": "trait", "path": p(&t.ident.to_string()),
                    "start": s, "end": e, "attrs": attrs_json(src, &t.attrs)}));
            }
            syn::Item::Use(_) => {
                out.push(json!({"kind": "use", "path": p("use"), "start": s, "end": e,
                    "text": &src.text[s..e]}));
            }
            syn::Item::Macro(m) => {
                let path = m
                    .mac
                    .path
                    .segments
                    .iter()
                    .map(|s| s.ident.to_string())
                    .collect::<Vec<_>>()
                    .join("::");
                let (ts, te) = match &m.mac.delimiter {
                    syn::MacroDelimiter::Paren(p) => src.span(p.span.join()),
                    syn::MacroDelimiter::Brace(p) => src.span(p.span.join()),
                    syn::MacroDelimiter::Bracket(p) => src.span(p.span.join()),
                };
                out.push(json!({"kind": "macro", "path": p(&path), "start": s, "end": e,
                    "body": {"start": ts, "end": te},
                    "ident": m.ident.as_ref().map(|i| i.to_string())}));
            }
            syn::Item::Mod(m) => {
                let name = m.ident.to_string();
                out.push(json!({"kind": "mod", "path": p(&name), "start": s, "end": e,
                    "inline": m.content.is_some(), "attrs": attrs_json(src, &m.attrs)}));
                if let Some((_, items)) = &m.content {
                    walk_items(src, &p(&name), items, out);
                }
            }
            syn::Item::Impl(im) => {
                let self_ty = type_text(src, &im.self_ty);
                let trait_ = im.trait_.as_ref().map(|(_, path, _)| {
                    let (a, b) = src.span(path.span());
                    src.text[a..b].to_string()
                });
                let (gs, ge) = src.span(im.generics.span());
                let hdr_end = src.span(im.brace_token.span.join()).0;
                out.push(json!({"kind": "impl", "path": p(&self_ty), "self_ty": self_ty,
                    "trait": trait_, "start": s, "end": e, "header": &src.text[s..hdr_end],
                    "generics": &src.text[gs..ge],
                    "attrs": attrs_json(src, &im.attrs)}));
                for ii in &im.items {
                    let (is, ie) = src.span(ii.span());
                    match ii {
                        syn::ImplItem::Fn(f) => {
                            out.push(json!({"kind": "impl_fn",
                                "path": p(&format!("{}::{}", self_ty, f.sig.ident)),
                                "self_ty": self_ty, "trait": trait_,
                                "impl_generics": &src.text[gs..ge],
                                "impl_start": s,
                                "start": is, "end": ie, "attrs": attrs_json(src, &f.attrs),
                                "vis": src.jspan(f.vis.span()),
                                "fn": sig_json(src, &f.sig, Some(&f.block))}));
                        }
                        syn::ImplItem::Const(c) => {
                            out.push(json!({"kind": "impl_const",
                                "path": p(&format!("{}::{}", self_ty, c.ident)),
                                "self_ty": self_ty, "trait": trait_,
                                "start": is, "end": ie}));
                        }
                        syn::ImplItem::Type(t) => {
                            out.push(json!({"kind": "impl_type",
                                "path": p(&format!("{}::{}", self_ty, t.ident)),
                                "self_ty": self_ty, "trait": trait_,
                                "start": is, "end": ie}));
                        }
                        _ => {}
                    }
                }
            }
            _ => {
                out.push(json!({"kind": "other", "path": p("?"), "start": s, "end": e}));
            }
        }
    }
}

fn main() {
    let args: Vec<String> = std::env::args().collect();
    if args.len() < 2 {
        eprintln!("usage: vx-extract <file.rs>");
        std::process::exit(2);
    }
    let text = match std::fs::read_to_string(&args[1]) {
        Ok(t) => t,
        Err(e) => {
            eprintln!("vx-extract: cannot read {}: {}", args[1], e);
            std::process::exit(2);
        }
    };
    let src = Src::new(text);
    let file = match syn::parse_file(&src.text) {
        Ok(f) => f,
        Err(e) => {
            let s = e.span().start();
            eprintln!("vx-extract: parse error in {} at {}:{}: {}", args[1], s.line, s.column, e);
            std::process::exit(3);
        }
    };
    let mut out = vec![];
    walk_items(&src, "", &file.items, &mut out);
    let j = json!({"file": args[1], "len": src.text.len(), "items": out});
    println!("{}", serde_json::to_string(&j).unwrap());
}
